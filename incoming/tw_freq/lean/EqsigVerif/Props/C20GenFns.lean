import EqsigVerif.Model.Fns
import EqsigVerif.Gen.GenericFns
import EqsigVerif.Lemmas.NpE
import EqsigVerif.Lemmas.Cplx
import EqsigVerif.Props.C20
import Mathlib.Algebra.Order.Ring.Rat
import Mathlib.Tactic.Ring
/-!
# C20 — translator tie: `calc_roll_av_vals` and `calc_step_fn_steps_vals` REGENERATED from `eqsig/fns/average.py`

`Gen/GenericFns.lean` is regenerated on every run by `tools/py2lean_x_freq.py`: branch structure on `mode` (an inductive made of
the string literals the code compares `mode` with), Python-integer arithmetic of the padding lengths (`steps - 1`,
`int(np.floor(steps / 2))`, `steps - s - 1` as `Int`, `np.ones` of a negative length raising), the slice store `csum[1:] = …`, the
two slices `csum[steps:]`, `csum[:-steps]`; and for `calc_step_fn_steps_vals` the `ind is None` branch, the call of
`calc_step_fn_vals_error` with its defaults, and the two Python slices.  Bridges: generated = hand model of `Model/Fns.lean`
(over `ℚ`, the model's number type) for all arguments, errors included.
-/
set_option linter.unusedSectionVars false
set_option linter.unusedVariables false
namespace EqsigVerif.Props.C20
open EqsigVerif EqsigVerif.Cplx EqsigVerif.Wire

/-- the model's three modes as the generated inductive (`'centre'`/`'center'`/anything else is the code's `else` branch) -/
def genMode : Model.Fns.Mode → Gen.GenericFns.RollMode
  | .forward => .forward
  | .backward => .backward
  | .centre => .other

theorem scale_ones (c : ℚ) (k : ℕ) : Np.scale c (List.replicate k (1 : ℚ)) = List.replicate k c := by
  simp [Np.scale, List.map_replicate]

theorem ones_scale (c : ℚ) (k : ℕ) : (List.replicate k (1 : ℚ)).map (fun w => w * c) = List.replicate k c := by
  simp [List.map_replicate]

theorem ones_pred (steps : ℕ) (h : steps ≠ 0) :
    (NpE.onesE (((steps : ℕ) : ℤ) - ((1 : ℕ) : ℤ)) : Except ErrKind (List ℚ)) = .ok (List.replicate (steps - 1) 1) := by
  have h1 : ¬ (((steps : ℕ) : ℤ) - ((1 : ℕ) : ℤ) < 0) := by omega
  have h2 : (((steps : ℕ) : ℤ) - ((1 : ℕ) : ℤ)).toNat = steps - 1 := by omega
  simp only [NpE.onesE, h1, if_false, h2]

theorem ones_centre (steps : ℕ) (h : steps ≠ 0) :
    (NpE.onesE ((((steps : ℕ) : ℤ) - ((steps / 2 : ℕ) : ℤ)) - ((1 : ℕ) : ℤ)) : Except ErrKind (List ℚ))
      = .ok (List.replicate (steps - steps / 2 - 1) 1) := by
  have h1 : ¬ ((((steps : ℕ) : ℤ) - ((steps / 2 : ℕ) : ℤ)) - ((1 : ℕ) : ℤ) < 0) := by omega
  have h2 : ((((steps : ℕ) : ℤ) - ((steps / 2 : ℕ) : ℤ)) - ((1 : ℕ) : ℤ)).toNat = steps - steps / 2 - 1 := by omega
  simp only [NpE.onesE, h1, if_false, h2]

theorem ones_zero_err :
    (NpE.onesE (((0 : ℕ) : ℤ) - ((1 : ℕ) : ℤ)) : Except ErrKind (List ℚ)) = .error .ValueError ∧
    (NpE.onesE ((((0 : ℕ) : ℤ) - ((0 / 2 : ℕ) : ℤ)) - ((1 : ℕ) : ℤ)) : Except ErrKind (List ℚ)) = .error .ValueError := by
  constructor <;> rfl

/-- `csum = np.zeros(n + steps); csum[1:] = c` is `0 :: c` -/
theorem csum_store (n steps : ℕ) (h : steps ≠ 0) (c : List ℚ) :
    NpE.setSlice (NpE.zeros (n + steps) : List ℚ) 1 (NpE.zeros (n + steps) : List ℚ).length c = 0 :: c := by
  obtain ⟨k, rfl⟩ : ∃ k, steps = k + 1 := ⟨steps - 1, by omega⟩
  simp [NpE.setSlice, NpE.zeros, ← Nat.add_assoc, List.replicate_succ]

/-- the final difference quotient -/
theorem roll_quot (csum : List ℚ) (steps : ℕ) (h : steps ≠ 0) :
    (Np.subL (csum.drop steps) (NpE.dropLast csum steps)).map (fun w => w / ((steps : ℕ) : ℚ))
      = List.zipWith (fun a b => (a - b) / (steps : ℚ)) (csum.drop steps) (csum.take (csum.length - steps)) := by
  simp only [Np.subL, NpE.dropLast, h, if_false, List.map_zipWith]

/-- **bridge** `calc_roll_av_vals`, the edge-replicated series: the model's `rollExt` on the first / last value -/
theorem gen_roll_ext (values : List ℚ) (steps : ℕ) (mode : Model.Fns.Mode) (v0 vl : ℚ)
    (h0 : values.head? = some v0) (hl : values.getLast? = some vl) (hs : steps ≠ 0) :
    Gen.GenericFns.rollExt values steps (genMode mode) = .ok (Model.Fns.rollExt values v0 vl steps mode) := by
  have g0 : NpE.getE values 0 = .ok v0 := by
    cases values with
    | nil => simp at h0
    | cons a t => simp at h0; subst h0; rfl
  have gl : NpE.lastE values = .ok vl := by simp only [NpE.lastE, hl]
  cases mode <;>
    simp only [genMode, Gen.GenericFns.rollExt, Model.Fns.rollExt, g0, gl, ones_pred steps hs, ones_centre steps hs, scale_ones, ones_scale,
      bind, Except.bind, pure, Except.pure]

/-- **bridge** `calc_roll_av_vals(values, steps, mode)`: generated = model for all arguments, errors included -/
theorem gen_roll_av (values : List ℚ) (steps : ℕ) (mode : Model.Fns.Mode) :
    Gen.GenericFns.rollAv values steps (genMode mode) = Model.Fns.rollAv values steps mode := by
  cases values with
  | nil => cases mode <;> rfl
  | cons a t =>
    obtain ⟨vl, hl⟩ : ∃ vl, (a :: t).getLast? = some vl := ⟨_, List.getLast?_eq_some_getLast (List.cons_ne_nil a t)⟩
    have g0 : NpE.getE (a :: t) 0 = .ok a := rfl
    have gl : NpE.lastE (a :: t) = .ok vl := by simp only [NpE.lastE, hl]
    by_cases hs : steps = 0
    · subst hs
      cases mode <;>
        simp only [genMode, Gen.GenericFns.rollAv, Model.Fns.rollAv, g0, gl, hl, List.head?_cons, ones_zero_err.1, ones_zero_err.2,
          bind, Except.bind, if_true]
    · cases mode <;>
        simp only [genMode, Gen.GenericFns.rollAv, Model.Fns.rollAv, Model.Fns.rollExt, g0, gl, hl, List.head?_cons, hs, if_false,
          ones_pred steps hs, ones_centre steps hs, scale_ones, ones_scale, bind, Except.bind, pure, Except.pure, csum_store _ steps hs,
          roll_quot _ steps hs]

/-- the default `mode='forward'` read from the signature -/
theorem gen_roll_av_default : Gen.GenericFns.rollAvDefaultMode = genMode .forward := rfl

/-! ## `calc_step_fn_steps_vals` -/

theorem gen_mean (l : List ℚ) : NpE.mean? l = Model.Fns.mean? l := by
  simp only [NpE.mean?, Model.Fns.mean?, Model.Fns.rsum, sumL_eq_sum]

theorem take_pyBound (l : List ℚ) (k : ℕ) : Model.Fns.pySliceTo l (k : ℤ) = l.take k := by
  have : Model.Fns.pyBound l.length (k : ℤ) = min k l.length := by
    simp only [Model.Fns.pyBound]
    split_ifs <;> omega
  rw [Model.Fns.pySliceTo, this, List.take_eq_take_iff]
  omega

theorem drop_pyBound (l : List ℚ) (k : ℕ) : Model.Fns.pySliceFrom l (((k + 1 : ℕ) : ℤ)) = l.drop (k + 1) := by
  have : Model.Fns.pyBound l.length (((k + 1 : ℕ) : ℤ)) = min (k + 1) l.length := by
    simp only [Model.Fns.pyBound]
    split_ifs <;> omega
  rw [Model.Fns.pySliceFrom, this]
  by_cases h : k + 1 ≤ l.length
  · rw [Nat.min_eq_left h]
  · rw [Nat.min_eq_right (by omega), List.drop_of_length_le (by omega), List.drop_of_length_le (by omega)]

/-- **bridge** `calc_step_fn_steps_vals(values, ind)`: generated = model for all arguments (errors included), with
`calc_step_fn_vals_error(values)` = the model's `stepErr` at the defaults READ FROM ITS SIGNATURE (`pow=1`, `dir=None`) -/
theorem gen_step_levels (values : List ℚ) (ind : Option ℤ) :
    Gen.GenericFns.stepLevels (fun v => Model.Fns.stepErr v Gen.GenericFns.stepErrDefaultPow .none) values ind
      = Model.Fns.stepLevels values ind := by
  cases ind with
  | some i =>
    simp only [Gen.GenericFns.stepLevels, Model.Fns.stepLevels, Model.Fns.stepLevelsAt, gen_mean, pure, Except.pure]
    first | rfl | (rw [Int.add_comm]; rfl)
  | none =>
    simp only [Gen.GenericFns.stepLevels, Model.Fns.stepLevels, Gen.GenericFns.stepErrDefaultPow, bind, Except.bind]
    by_cases hn : values.length = 0
    · simp [Model.Fns.stepErr, hn]
    · have he : Model.Fns.stepErr values 1 .none = .ok (Model.Fns.stepErrRaw values 1) := by
        simp [Model.Fns.stepErr, hn]
      have hlen : (Model.Fns.stepErrRaw values 1).length ≠ 0 := by simp [Model.Fns.stepErrRaw]
      simp only [he, NpE.argminE, hlen, if_false, pure, Except.pure, Model.Fns.stepLevelsAt, gen_mean, take_pyBound]
      have := drop_pyBound values (Np.argmin (Model.Fns.stepErrRaw values 1))
      simp only [Nat.cast_add, Nat.cast_one] at this
      rw [this]

/-! ## consequences: C20 clauses about the generated code -/
open Model.Fns in
/-- **C20.c for the generated code** the generated rolling average is, sample by sample, the mean of the edge-replicated series over
the window of `steps` samples starting `windowOffset` samples before the current one; the length is kept -/
theorem gen_roll_av_spec (values : List ℚ) (hne : values ≠ []) (steps : ℕ) (hs : 1 ≤ steps) (mode : Mode) :
    Gen.GenericFns.rollAv values steps (genMode mode) = .ok ((List.range values.length).map
      (fun (i : ℕ) => Spec.Fns.windowMean values steps ((i : ℤ) - (Spec.Fns.windowOffset steps mode : ℤ)))) := by
  rw [gen_roll_av]; exact roll_av_spec values hne steps hs mode

open Model.Fns in
/-- **C20.c for the generated code** constants are preserved; `steps = 1` is the identity -/
theorem gen_roll_av_const_one (mode : Mode) :
    (∀ (n : ℕ) (hn : 0 < n) (c : ℚ) (steps : ℕ) (hs : 1 ≤ steps),
      Gen.GenericFns.rollAv (List.replicate n c) steps (genMode mode) = .ok (List.replicate n c)) ∧
    (∀ values : List ℚ, values ≠ [] → Gen.GenericFns.rollAv values 1 (genMode mode) = .ok values) := by
  simp only [gen_roll_av]
  exact ⟨fun n hn c steps hs => roll_av_const n hn c steps hs mode, fun values hne => roll_av_one values hne mode⟩

open Model.Fns in
/-- the generated `calc_roll_av_vals` raises `IndexError` iff the series is empty, `ValueError` iff (non-empty and) `steps = 0` -/
theorem gen_roll_av_raises (values : List ℚ) (steps : ℕ) (mode : Mode) :
    (Gen.GenericFns.rollAv values steps (genMode mode) = .error .IndexError ↔ values = []) ∧
    (Gen.GenericFns.rollAv values steps (genMode mode) = .error .ValueError ↔ values ≠ [] ∧ steps = 0) := by
  rw [gen_roll_av]; exact roll_av_raises values steps mode

open Model.Fns in
/-- **C20.e for the generated code** explicit split sample `k < n`: means of the samples strictly before / strictly after `k` -/
theorem gen_step_levels_spec (values : List ℚ) (k : ℕ) (hk : k < values.length) :
    Gen.GenericFns.stepLevels (fun v => stepErr v Gen.GenericFns.stepErrDefaultPow .none) values (some (k : ℤ))
      = .ok (mean? (values.take k), mean? (values.drop (k + 1))) := by
  rw [gen_step_levels]; exact (step_levels_spec values k hk).1

open Model.Fns in
/-- the generated `calc_step_fn_steps_vals(values)` (default split) raises (`IndexError`) iff the series is empty -/
theorem gen_step_levels_raises (values : List ℚ) :
    Gen.GenericFns.stepLevels (fun v => stepErr v Gen.GenericFns.stepErrDefaultPow .none) values none = .error .IndexError
      ↔ values = [] := by
  rw [gen_step_levels]; exact step_levels_raises values

example : Gen.GenericFns.rollAv [1, 2, 3, (6 : ℚ)] 2 .forward = .ok [3/2, 5/2, 9/2, 6] ∧
    Gen.GenericFns.rollAv [1, 2, 3, (6 : ℚ)] 2 .backward = .ok [1, 3/2, 5/2, 9/2] ∧
    Gen.GenericFns.rollAv [1, 2, 3, (6 : ℚ)] 3 .other = .ok [4/3, 2, 11/3, 5] ∧
    Gen.GenericFns.rollAv [1, 2, 3, (6 : ℚ)] 0 .forward = .error .ValueError ∧
    Gen.GenericFns.rollAv ([] : List ℚ) 2 .other = .error .IndexError := by decide +kernel
example : Gen.GenericFns.rollExt [1, 2, (6 : ℚ)] 3 .other = .ok [1, 1, 2, 6, 6] := by decide +kernel
example : Gen.GenericFns.stepLevels (fun v => Model.Fns.stepErr v 1 .none) [1, 1, 1, 5, (5 : ℚ)] none = .ok (some 1, some 5) ∧
    Gen.GenericFns.stepLevels (fun v => Model.Fns.stepErr v 1 .none) [1, 1, 1, 5, (5 : ℚ)] (some (-1)) = .ok (some 2, some (13/5)) ∧
    Gen.GenericFns.stepLevels (fun v => Model.Fns.stepErr v 1 .none) [1, 1, 1, 5, (5 : ℚ)] (some 4) = .ok (some 2, none) := by
  decide +kernel

end EqsigVerif.Props.C20
