TARGET_NAMES = ['gen_generic_fns']
MODULES = ['EqsigVerif.Props.C20GenFns']
GENFILES = ['GenericFns.lean']
A = 'fns/average.py'
EDITS = [
 ('B1 roll: forward pad steps - 1 -> steps', A, "x_ext = np.concatenate([values, values[-1] * np.ones(steps - 1)])", "x_ext = np.concatenate([values, values[-1] * np.ones(steps)])"),
 ('B2 roll: forward pads with values[0]', A, "x_ext = np.concatenate([values, values[-1] * np.ones(steps - 1)])", "x_ext = np.concatenate([values, values[0] * np.ones(steps - 1)])"),
 ('B3 roll: backward pad appended instead of prepended', A, "x_ext = np.concatenate([values[0] * np.ones(steps - 1), values])", "x_ext = np.concatenate([values, values[0] * np.ones(steps - 1)])"),
 ('B4 roll: centre e = steps - s - 1 -> steps - s', A, "e = steps - s - 1", "e = steps - s"),
 ('B5 roll: floor(steps / 2) -> floor(steps / 3)', A, "s = int(np.floor(steps / 2))", "s = int(np.floor(steps / 3))"),
 ('B6 roll: csum[1:] -> csum[0:]', A, "csum[1:] = np.cumsum(x_ext, dtype=float)", "csum[0:] = np.cumsum(x_ext, dtype=float)"),
 ('B7 roll: csum[steps:] -> csum[steps - 1:]', A, "(csum[steps:] - csum[:-steps]) / steps", "(csum[steps - 1:] - csum[:-steps]) / steps"),
 ('B8 roll: difference reversed', A, "(csum[steps:] - csum[:-steps]) / steps", "(csum[:-steps] - csum[steps:]) / steps"),
 ('B9 roll: not divided by steps', A, "return (csum[steps:] - csum[:-steps]) / steps", "return (csum[steps:] - csum[:-steps])"),
 ('B10 roll: swap forward/backward literals', A, "    if mode == 'forward':\n        x_ext = np.concatenate([values, values[-1]", "    if mode == 'backward':\n        x_ext = np.concatenate([values, values[-1]"),
 ('B11 roll: default mode backward', A, "def calc_roll_av_vals(values, steps, mode='forward')", "def calc_roll_av_vals(values, steps, mode='backward')"),
 ('B12 roll: cumsum dropped', A, "csum[1:] = np.cumsum(x_ext, dtype=float)", "csum[1:] = x_ext"),
 ('B13 steps_vals: values[:ind] -> values[:ind + 1]', A, "pre = np.mean(values[:ind])", "pre = np.mean(values[:ind + 1])"),
 ('B14 steps_vals: values[ind + 1:] -> values[ind:]', A, "post = np.mean(values[ind + 1:])", "post = np.mean(values[ind:])"),
 ('B15 steps_vals: argmin -> argmax', A, "ind = np.argmin(calc_step_fn_vals_error(values))", "ind = np.argmax(calc_step_fn_vals_error(values))"),
 ('B16 steps_vals: return swapped', A, "    return pre, post", "    return post, pre"),
 ('B17 vals_error: default pow=1 -> pow=2', A, "def calc_step_fn_vals_error(values, pow=1, dir=None)", "def calc_step_fn_vals_error(values, pow=2, dir=None)"),
 ('B18 steps_vals: `is None` -> `is not None`', A, "    if ind is None:\n        ind = np.argmin", "    if ind is not None:\n        ind = np.argmin"),
 ('H1 roll: rename x_ext/csum', A, "x_ext", "xx", 'all'),
 ('H2 roll: remove temporary e', A, "        e = steps - s - 1\n        x_ext = np.concatenate([values[0] * np.ones(s), values, values[-1] * np.ones(e)])", "        x_ext = np.concatenate([values[0] * np.ones(s), values, values[-1] * np.ones(steps - s - 1)])"),
 ('H3 roll: steps // 2 for int(np.floor(steps / 2))', A, "s = int(np.floor(steps / 2))", "s = steps // 2"),
 ('H4 roll: np.ones(k) * values[-1] (commuted)', A, "x_ext = np.concatenate([values, values[-1] * np.ones(steps - 1)])", "x_ext = np.concatenate([values, np.ones(steps - 1) * values[-1]])"),
 ('H5 roll: temporary for the difference', A, "    return (csum[steps:] - csum[:-steps]) / steps", "    dif = csum[steps:] - csum[:-steps]\n    return dif / steps"),
 ('H6 roll: else-branch tested explicitly (elif centre… else same) ', A, "    else:\n        s = int(np.floor(steps / 2))", "    elif mode != 'forward':\n        s = int(np.floor(steps / 2))"),
 ('H7 steps_vals: temporaries removed', A, "    pre = np.mean(values[:ind])\n    post = np.mean(values[ind + 1:])\n    return pre, post", "    return np.mean(values[:ind]), np.mean(values[ind + 1:])"),
 ('H8 steps_vals: 1 + ind', A, "values[ind + 1:]", "values[1 + ind:]"),
]
