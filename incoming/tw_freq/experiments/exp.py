#!/usr/bin/env python3
"""experiment runner: apply one edit to a copy of the source, regenerate, rebuild the bridge modules"""
import json, os, shutil, subprocess, sys
ROOT = '/tmp/tw_freq'
SRC = ROOT + '/src'
GEN = ROOT + '/lean/EqsigVerif/Gen'

def run(edits, modules, genfiles):
    base = {}
    subprocess.run(['python3', ROOT + '/tools/py2lean.py', '--repo', '/repo', '--out', GEN], capture_output=True)
    for g in genfiles:
        base[g] = open(os.path.join(GEN, g)).read()
    rows = []
    for ed in edits:
        label, fname, old, new = ed[:4]
        cnt = -1 if len(ed) > 4 and ed[4] == 'all' else 1
        subprocess.run(['python3', ROOT + '/tools/py2lean.py', '--repo', '/repo', '--out', GEN], capture_output=True)
        shutil.rmtree(SRC + '/eqsig', ignore_errors=True)
        shutil.copytree('/repo/eqsig', SRC + '/eqsig')
        p = os.path.join(SRC, 'eqsig', fname)
        s = open(p).read()
        if s.count(old) < 1:
            rows.append((label, 'EDIT NOT APPLICABLE')); continue
        s = s.replace(old, new, cnt)
        open(p, 'w').write(s)
        r = subprocess.run(['python3', ROOT + '/tools/py2lean.py', '--repo', SRC, '--out', GEN], capture_output=True, text=True)
        rep = json.loads(r.stdout.strip().splitlines()[-1])
        unt = [u for u in rep['untranslatable'] if u['target'] in TARGET_NAMES]
        if unt:
            rows.append((label, 'Untranslatable: %s:%s %s' % (unt[0]['function'], unt[0]['line'], unt[0]['construct'][:90]))); continue
        changed = [g for g in genfiles if open(os.path.join(GEN, g)).read() != base[g]]
        if not changed:
            rows.append((label, 'generated text identical')); continue
        b = subprocess.run(['lake', 'build'] + modules, cwd=ROOT + '/lean', capture_output=True, text=True)
        errs = [l for l in b.stdout.splitlines() if l.startswith('error:') and '.lean:' in l]
        rows.append((label, ('bridge build FAILS (%s)' % errs[0].split('error: ')[1][:60]) if b.returncode != 0 else 'regenerated text differs, bridge still proves'))
    subprocess.run(['python3', ROOT + '/tools/py2lean.py', '--repo', '/repo', '--out', GEN], capture_output=True)
    for label, res in rows:
        print(f"{label:58s} -> {res}")

if __name__ == '__main__':
    import importlib.util
    spec = importlib.util.spec_from_file_location('e', sys.argv[1]); m = importlib.util.module_from_spec(spec); spec.loader.exec_module(m)
    TARGET_NAMES = m.TARGET_NAMES
    run(m.EDITS, m.MODULES, m.GENFILES)
