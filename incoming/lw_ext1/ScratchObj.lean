import EqsigVerif.Model.ObjectSpectra
import EqsigVerif.Gen.SdofABFloat
import EqsigVerif.Gen.Consts
/-! validation runner for `Model.ObjectSpectra.objectSpectraWith` / `objectSpectra`:
reads `obj_cases.txt` (one case per line: `values|dt|rt|xi(float bits)|ratio|twoPi`, rationals exact),
evaluates the model with the displacement rows produced by the `Float` recurrence
(`respRowsU` at `Float` with the generated `computeABFloat`, converted exactly to `Rat`), prints
`ok|sd…|sv…|sa…` (float bit patterns of the nearest doubles) or `err|Kind`.
Run: `lake env lean --run ScratchObj.lean obj_cases.txt` -/
open EqsigVerif EqsigVerif.Wire EqsigVerif.Model.ObjectSpectra EqsigVerif.Model.Sdof

instance : Inhabited Float := ⟨0.0⟩

/-- exact value of a finite double -/
def floatToRat (f : Float) : Rat :=
  let b : Nat := f.toBits.toNat
  let neg : Bool := b / 2^63 == 1
  let e : Nat := (b / 2^52) % 2^11
  let m : Nat := b % 2^52
  let mag : Rat :=
    if e = 0 then mkRat (Int.ofNat m) (2^1074)
    else if e ≥ 1075 then ((Int.ofNat ((2^52 + m) * 2^(e - 1075))) : Rat)
    else mkRat (Int.ofNat (2^52 + m)) (2^(1075 - e))
  if neg then -mag else mag

/-- nearest double of a rational with moderate numerator/denominator -/
def ratToFloat (q : Rat) : Float := Float.ofInt q.num / Float.ofNat q.den

/-- displacement rows through the Float twin of the response -/
def respUFloat (xi : Float) (motion : List Rat) (dt : Rat) (periods : List Rat) : Except ErrKind (List (List Rat)) :=
  match respRowsU Gen.Consts.njTwoPiFloat (fun p => p == 0) Gen.SdofAB.computeABFloat xi
      (motion.map ratToFloat) (ratToFloat dt) (periods.map ratToFloat) with
  | .error e => .error e
  | .ok rows => .ok (rows.map (·.map floatToRat))

def runCase (line : String) : String :=
  match (line.splitOn "|").map tokens with
  | [values, dt, rt, xi, ratio, twoPi] =>
    let r : Except String Outcome := do
      let values ← rats values; let dt ← rat1 dt; let rt ← rats rt; let xi ← float1 xi
      let ratio ← rat1 ratio; let twoPi ← rat1 twoPi
      pure (ofExcept (fun (a, b, c) => [outFloats (a.map ratToFloat), outFloats (b.map ratToFloat), outFloats (c.map ratToFloat)])
        (objectSpectraWith id twoPi (respUFloat xi) values dt rt ratio))
    renderOutcome r
  | _ => "bad|fields"

def main (args : List String) : IO Unit := do
  let path := args.headD "obj_cases.txt"
  let txt ← IO.FS.readFile path
  for line in txt.splitOn "\n" do
    if line.length > 2 then IO.println (runCase line)
