"""Ragged clusters: existing model `Model.Multiple.timeMatch` vs `Cluster.time_match` of /repo (integer records).
Run in the Lean project dir: PYTHONPATH=/repo /venv/bin/python validate_ragged.py"""
import random, subprocess, re
import numpy as np
from eqsig.multiple import Cluster
random.seed(3)
cases = []
for t in range(60):
    nsig = random.choice([2, 3, 3, 4])
    base = random.randint(5, 12)
    lens = [max(1, base + random.choice([-3, -1, 0, 0, 1, 2, 4])) for _ in range(nsig)]
    pulse = [random.randint(-5, 5) for _ in range(max(lens) + 6)]
    sigs = []
    for L in lens:
        sh = random.randint(-2, 2)
        sigs.append([pulse[3 + sh + j] for j in range(L)])
    cases.append((sigs, random.randrange(nsig), random.choice([1, 2, 3, 4])))
with open("ScratchRagged.lean", "w") as f:
    f.write("import EqsigVerif.Model.Multiple\nopen EqsigVerif.Model.Multiple\n")
    for sigs, master, steps in cases:
        f.write("#eval timeMatch %s %d %d\n" % (str(sigs).replace("-", "-"), master, steps))
out = subprocess.run(["lake", "env", "lean", "ScratchRagged.lean"], capture_output=True, text=True).stdout
out = "\n".join(l for l in out.splitlines() if not l.startswith("WARNING"))
lines = ["Except." + " ".join(ch.split()) for ch in out.split("Except.")[1:]]
assert len(lines) == len(cases), (len(lines), out[-500:])
agree = 0; bad = []; nerr = 0
for (sigs, master, steps), line in zip(cases, lines):
    try:
        c = Cluster([np.array(s, dtype=float) for s in sigs], dt=0.5, master_index=master)
        lag = c.time_match(steps=steps)
        py = ("ok", int(lag), [[int(x) for x in c.signal_by_index(i).values] for i in range(len(sigs))])
    except Exception as e:
        py = ("err", type(e).__name__)
    if line.startswith("Except.ok"):
        val = eval(line[len("Except.ok "):])
        lean = ("ok", val[0], val[1])
    else:
        lean = ("err", re.search(r"ErrKind\.(\w+)", line).group(1)); 
    if py == lean: agree += 1; nerr += py[0] == "err"
    else: bad.append((sigs, master, steps, py, lean))
print("ragged cases", len(cases), "agree", agree, "(errors among them:", nerr, ") disagree", len(bad))
for b in bad[:5]: print(b)
