"""Validation of Model.ObjectSpectra (objectInput / objectSpectraWith / objectSpectra) against
AccSignal.gen_response_spectrum of /repo.  Run from the Lean project directory:
    PYTHONPATH=/repo /venv/bin/python validate_obj.py
Dyadic dt, min_dt_ratio and 20*dyadic minimum period make the step decision exact in binary64; everything else
(record, other periods, xi) is arbitrary doubles sent as exact rationals.  Tolerance 1e-9 of the peak."""
import subprocess, random, struct, sys
from fractions import Fraction as Fr
import numpy as np
import eqsig

random.seed(7)
def fr(x): return Fr(float(x))
def rs(q): q = Fr(q); return f"{q.numerator}/{q.denominator}" if q.denominator != 1 else f"{q.numerator}"
def fbits(x): return "b%d" % struct.unpack("<Q", struct.pack("<d", float(x)))[0]
def unbits(s): return struct.unpack("<d", struct.pack("<Q", int(s[1:])))[0]

cases = []
def add(values, dt, rt, xi, ratio): cases.append((list(map(float, values)), float(dt), list(map(float, rt)), float(xi), ratio))

dts = [1/4, 1/8, 1/16, 1/32, 1/64]
for t in range(60):
    n = random.choice([1, 2, 3, 5, 8, 13, 24, 40])
    kind = t % 3
    if kind == 0: values = [random.randint(-8, 8) for _ in range(n)]
    elif kind == 1: values = [random.randint(-64, 64) / 16 for _ in range(n)]
    else: values = [random.gauss(0, 1) for _ in range(n)]
    dt = random.choice(dts)
    # minimum non-zero period: 20 * dyadic, around dt*20*{1/8 … 4} so that both branches and factors 2..8 occur
    tmin = 20 * dt * random.choice([1/8, 1/4, 3/8, 1/2, 5/8, 3/4, 1, 3/2, 2, 4])
    others = sorted(tmin * (1 + random.random() * 30) for _ in range(random.choice([0, 1, 2, 4])))
    lead0 = random.random() < 0.4
    rt = ([0.0] if lead0 else []) + [tmin] + others
    xi = random.choice([0.0, 0.05, 0.2, 0.5, 0.02])
    ratio = random.choice([1, 2, 4, 4, 8, 0.5, 16])
    add(values, dt, rt, xi, ratio)
# error / corner cases
add([1, -2, 3], 1/4, [0.0], 0.05, 4)          # IndexError (response_times[1])
add([1, -2, 3], 1/4, [], 0.05, 4)             # IndexError (response_times[0])
add([1, -2, 3], 1/4, [1.25, 2.0], 0.05, 0)    # ZeroDivisionError
# (out of domain, not compared: a zero period that is not the first one, e.g. [0, 0, 1]: NumPy divides by zero
#  (inf/nan rows), exact rationals have x/0 = 0.  The theorems assume positive periods except a leading zero.)
add([0, 0, 0, 0], 1/4, [1.25, 2.0], 0.05, 4)  # zero record
add([5], 1/8, [0.0, 0.625], 0.05, 4)          # one sample, interpolated

twoPi = fr(2 * np.pi)
with open("obj_cases.txt", "w") as f:
    for (values, dt, rt, xi, ratio) in cases:
        f.write("|".join([" ".join(rs(fr(v)) for v in values), rs(fr(dt)), " ".join(rs(fr(p)) for p in rt), fbits(xi),
                          rs(Fr(ratio)), rs(twoPi)]) + "\n")
out = subprocess.run(["lake", "env", "lean", "--run", "ScratchObj.lean", "obj_cases.txt"], capture_output=True, text=True)
lines = [l for l in out.stdout.splitlines() if l.startswith(("ok|", "err|", "bad|"))]
assert len(lines) == len(cases), (len(lines), len(cases), out.stderr[-2000:])

n_ok = n_err = n_interp = 0; bad = []
np.seterr(all="ignore")
for idx, ((values, dt, rt, xi, ratio), line) in enumerate(zip(cases, lines)):
    try:
        asig = eqsig.AccSignal(np.array(values), dt)
        asig.gen_response_spectrum(response_times=np.array(rt), xi=xi, min_dt_ratio=ratio)
        py = ("ok", np.array(asig.s_d), np.array(asig.s_v), np.array(asig.s_a))
    except Exception as e:
        py = ("err", type(e).__name__)
    parts = line.split("|")
    if py[0] == "err":
        if parts[0] == "err" and parts[1] == py[1]: n_err += 1
        else: bad.append((idx, "error kind", py, line[:200]))
        continue
    if parts[0] != "ok": bad.append((idx, "lean not ok", line[:200], py)); continue
    ok = True
    for arr, toks in zip(py[1:], parts[1:4]):
        lean = np.array([unbits(t) for t in toks.split()]) if toks.strip() else np.array([])
        if lean.shape != arr.shape: ok = False; break
        if arr.size == 0: continue
        if not (np.all(np.isfinite(arr)) and np.all(np.isfinite(lean))):
            ok = ok and np.array_equal(np.isfinite(arr), np.isfinite(lean)); continue
        tol = 1e-9 * max(np.max(np.abs(arr)), 1e-300)
        if np.max(np.abs(arr - lean)) > tol: ok = False
    if ok: n_ok += 1
    else: bad.append((idx, "values", cases[idx], line[:300], py))
print("cases", len(cases), "agree(ok)", n_ok, "agree(err)", n_err, "disagree", len(bad))
for b in bad[:10]: print(b)
