import EqsigVerif.Prelude.Np
import EqsigVerif.Prelude.Wire
import EqsigVerif.Model.SpectraFns
import EqsigVerif.Model.TimeStep
import EqsigVerif.Model.Sdof
/-!
# Model of `AccSignal.gen_response_spectrum` end to end (hand model, Mathlib-free, executable)

`eqsig/single.py`:
```python
def gen_response_spectrum(self, response_times=None, xi=-1, min_dt_ratio=4):
    if response_times is not None:
        self.response_times = response_times
    if self.response_times[0] != 0:
        min_non_zero_period = self.response_times[0]
    else:
        min_non_zero_period = self.response_times[1]
    target_dt = max(min_non_zero_period / 20, self.dt / min_dt_ratio)  # limit to ratio of motion time step
    if target_dt < self.dt:
        values_interp, dt_interp = interp_array_to_approx_dt(self.values, self.dt, target_dt, even=False)
    else:
        values_interp = self.values
        dt_interp = self.dt
    if xi == -1:
        xi = self._cached_xi
    self._s_d, self._s_v, self._s_a = dh.pseudo_response_spectra(values_interp, dt_interp, self.response_times, xi)
```
and `eqsig/sdof.py: pseudo_response_spectra(motion, dt, periods, xi)` = `nigam_and_jennings_response` followed by the
reductions of `Model.SpectraFns.pseudoSpectra`.

Composition of existing pieces:
* `Model.SpectraFns.targetDt` (`min_non_zero_period`, `target_dt`, with `IndexError` / `ZeroDivisionError`);
* `Model.TimeStep.interpArrayToApproxDt … even := false` (= `interpToApproxDt values dt (factorRule (dt/target_dt)) false`
  for `dt, target_dt > 0`);
* `Model.Sdof.response` with an arbitrary propagator `ab xi w dt` (`compute_a_and_b`);
* `Model.SpectraFns.pseudoSpectra`.

Number domains: the record, `dt`, the periods and `min_dt_ratio` are exact rationals (the step decision and the linear
interpolation are exact on them); the response and the spectra are computed in `α` after `cast : Rat → α`
(`ℝ` in the theorems; in the validation `α = Rat` with a displacement-row function that runs the `Float` recurrence).
`xi` is the damping after the `-1 → cached value` resolution.
-/
namespace EqsigVerif.Model.ObjectSpectra
open EqsigVerif
open EqsigVerif.Wire (ErrKind)
open EqsigVerif.Model.SpectraFns EqsigVerif.Model.TimeStep EqsigVerif.Model.Sdof

/-- what `gen_response_spectrum` hands to `pseudo_response_spectra`: `(values_interp, dt_interp)`.
Errors: `IndexError` (`response_times[0]` / `[1]`), `ZeroDivisionError` (`min_dt_ratio == 0`; `target_dt == 0` inside
`interp_array_to_approx_dt`). -/
def objectInput (values : List Rat) (dt : Rat) (respTimes : List Rat) (minDtRatio : Rat) :
    Except ErrKind (List Rat × Rat) :=
  match targetDt respTimes dt minDtRatio with      -- min_non_zero_period, target_dt
  | .error e => .error e
  | .ok target =>
    if target < dt then interpArrayToApproxDt values dt target false
    else .ok (values, dt)

section Generic
variable {α : Type} [LT α] [DecidableLT α] [Neg α] [OfNat α 0] [OfNat α 1] [OfNat α 2] [OfNat α 6]
  [Add α] [Sub α] [Mul α] [Div α] [DecidableEq α]

/-- `pseudo_response_spectra(motion, dt, periods, xi)` end to end, given the function `respU` that produces the
displacement rows of the response (`resp_u` of `nigam_and_jennings_response(motion, dt, periods, xi)`) -/
def pseudoResponseSpectra (twoPi : α) (respU : List α → α → List α → Except ErrKind (List (List α)))
    (motion : List α) (dt : α) (periods : List α) : Except ErrKind (List α × List α × List α) :=
  match respU motion dt periods with
  | .error e => .error e
  | .ok u => pseudoSpectra twoPi motion dt periods u

/-- the displacement rows of `nigam_and_jennings_response(motion, dt, periods, xi)` for the propagator
`ab xi w dt` (`compute_a_and_b`); `c` is the constant `6.2831853`, `isZero` the test `periods[0] == 0`;
no periods: `IndexError` -/
def respRowsU (c : α) (isZero : α → Bool) (ab : α → α → α → AB α) (xi : α)
    (motion : List α) (dt : α) (periods : List α) : Except ErrKind (List (List α)) :=
  match response c isZero (fun w => ab xi w dt) xi motion periods with
  | none => .error .IndexError
  | some rows => .ok (rows.map (·.1))

/-- `gen_response_spectrum` for any displacement-row function: `(s_d, s_v, s_a)` -/
def objectSpectraWith (cast : Rat → α) (twoPi : α)
    (respU : List α → α → List α → Except ErrKind (List (List α)))
    (values : List Rat) (dt : Rat) (respTimes : List Rat) (minDtRatio : Rat) :
    Except ErrKind (List α × List α × List α) :=
  match objectInput values dt respTimes minDtRatio with
  | .error e => .error e
  | .ok (valuesInterp, dtInterp) =>
    pseudoResponseSpectra twoPi respU (valuesInterp.map cast) (cast dtInterp) (respTimes.map cast)

/-- `AccSignal.gen_response_spectrum(response_times, xi, min_dt_ratio)` as a function of
`(values, dt, response_times, xi, min_dt_ratio)`: `(s_d, s_v, s_a)`, with the Nigam–Jennings response for the
propagator `ab`. -/
def objectSpectra (cast : Rat → α) (twoPi c : α) (isZero : α → Bool) (ab : α → α → α → AB α) (xi : α)
    (values : List Rat) (dt : Rat) (respTimes : List Rat) (minDtRatio : Rat) :
    Except ErrKind (List α × List α × List α) :=
  objectSpectraWith cast twoPi (respRowsU c isZero ab xi) values dt respTimes minDtRatio

end Generic

end EqsigVerif.Model.ObjectSpectra
