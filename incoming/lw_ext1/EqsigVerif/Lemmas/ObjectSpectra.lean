import EqsigVerif.Model.ObjectSpectra
import EqsigVerif.Lemmas.TimeStep
import EqsigVerif.Lemmas.SpectraFns
import EqsigVerif.Lemmas.Sdof
import EqsigVerif.Lemmas.SdofRefine
import EqsigVerif.Gen.SdofABReal
import Mathlib.Data.Rat.Cast.Order
/-!
# Lemmas for the composition theorem of `AccSignal.gen_response_spectrum` (C03.d, `Props/C03Compose.lean`)

* the two branches of `objectInput` (`objectInput_raw`, `objectInput_interp`);
* `interpValues x k false = refine k x ++ replicate (k-1) x[-1]`: the `even=False` interpolation of
  `interp_array_to_approx_dt` with an integer factor is the linear refinement of C02.e followed by `k − 1` copies of the
  last sample (`np.interp`'s default `right`);
* refinement commutes with the cast `ℚ → ℝ`;
* the tail does not matter for the samples at the original instants (causality, `rowFor_take`): `Sampled3`;
* `IsAbsMax` is monotone under "every sample of `l` occurs in `L`".
-/
set_option linter.unusedSectionVars false
set_option linter.unusedVariables false
namespace EqsigVerif.Lemmas.ObjectSpectra
open EqsigVerif
open EqsigVerif.Wire (ErrKind)
open EqsigVerif.Model.Sdof EqsigVerif.Model.TimeStep EqsigVerif.Model.SpectraFns EqsigVerif.Model.ObjectSpectra
open EqsigVerif.Interp

/-! ## the branches of `objectInput` -/

theorem objectInput_error (values : List ℚ) (dt : ℚ) (rt : List ℚ) (ratio : ℚ) (e : ErrKind)
    (h : targetDt rt dt ratio = .error e) : objectInput values dt rt ratio = .error e := by
  simp [objectInput, h]

theorem objectInput_raw (values : List ℚ) (dt : ℚ) (rt : List ℚ) (ratio target : ℚ)
    (h : targetDt rt dt ratio = .ok target) (hge : dt ≤ target) :
    objectInput values dt rt ratio = .ok (values, dt) := by
  simp [objectInput, h, not_lt.2 hge]

/-- the interpolated branch: integer factor `k = ⌈dt/target⌉ ≥ 2`, new step `dt/k ≤ target` -/
theorem objectInput_interp (values : List ℚ) (dt : ℚ) (rt : List ℚ) (ratio target : ℚ)
    (h : targetDt rt dt ratio = .ok target) (ht : 0 < target) (hlt : target < dt) :
    ∃ k : ℕ, 2 ≤ k ∧ factorRule (dt / target) = (k : ℚ) ∧ (k : ℚ) = ((⌈dt / target⌉ : ℤ) : ℚ) ∧
      dt / (k : ℚ) ≤ target ∧
      interpToApproxDt values dt (factorRule (dt / target)) false = .ok (interpValues values (k : ℚ) false, dt / (k : ℚ)) ∧
      objectInput values dt rt ratio = .ok (interpValues values (k : ℚ) false, dt / (k : ℚ)) := by
  have hdt : 0 < dt := lt_trans ht hlt
  have hq : 1 < dt / target := by rw [lt_div_iff₀ ht]; linarith
  have h2 := two_le_ceil _ hq
  have hcast : ((⌈dt / target⌉.toNat : ℕ) : ℤ) = ⌈dt / target⌉ := Int.toNat_of_nonneg (by omega)
  have hk : factorRule (dt / target) = ((⌈dt / target⌉.toNat : ℕ) : ℚ) := by
    rw [factorRule_of_gt_one _ hq]
    exact_mod_cast congrArg (fun z : ℤ => (z : ℚ)) hcast.symm
  have hkpos : (0 : ℚ) < ((⌈dt / target⌉.toNat : ℕ) : ℚ) := by rw [← hk]; exact factorRule_pos _ (lt_trans one_pos hq)
  have hi : interpToApproxDt values dt (factorRule (dt / target)) false =
      .ok (interpValues values ((⌈dt / target⌉.toNat : ℕ) : ℚ) false, dt / ((⌈dt / target⌉.toNat : ℕ) : ℚ)) := by
    rw [hk]; simp [interpToApproxDt, hkpos.ne']
  refine ⟨⌈dt / target⌉.toNat, by omega, hk, by exact_mod_cast congrArg (fun z : ℤ => (z : ℚ)) hcast, ?_, hi, ?_⟩
  · rw [div_le_iff₀ hkpos, ← hk]
    have hle := le_factorRule (dt / target) (lt_trans one_pos hq)
    have : dt = dt / target * target := by field_simp
    calc dt = dt / target * target := this
      _ ≤ factorRule (dt / target) * target := mul_le_mul_of_nonneg_right hle ht.le
      _ = target * factorRule (dt / target) := mul_comm _ _
  · simp only [objectInput, h, hlt, if_true, interpArrayToApproxDt, factorRule?, ht.ne', hdt.ne', if_false, bind,
      Except.bind]
    exact hi

/-! ## `refine` sample by sample (any field) -/
section RefineGen
variable {α : Type} [Field α]

theorem refinePanel_getElem? (k : ℕ) (a b : α) (r : ℕ) (hr : r < k) :
    (refinePanel k a b)[r]? = some (a + (b - a) * ((r + 1 : ℕ) : α) / (k : α)) := by
  simp [refinePanel, List.getElem?_map, List.getElem?_range hr]

theorem refineFrom_getElem?_gen (k : ℕ) (l : List α) : ∀ (a : α) (i r : ℕ), i < l.length → r < k →
    (refineFrom k a l)[k * i + r]? =
      some ((a :: l).getD i 0 + (l.getD i 0 - (a :: l).getD i 0) * ((r + 1 : ℕ) : α) / (k : α)) := by
  induction l with
  | nil => intro a i r hi; simp at hi
  | cons b rest ih =>
    intro a i r hi hr
    have hlen := length_refinePanel k a b
    rw [refineFrom]
    cases i with
    | zero =>
      rw [Nat.mul_zero, Nat.zero_add, List.getElem?_append_left (by rw [hlen]; exact hr),
        refinePanel_getElem? k a b r hr]
      simp
    | succ j =>
      have e : k * (j + 1) + r = k + (k * j + r) := by ring
      rw [e, List.getElem?_append_right (by rw [hlen]; omega), hlen, Nat.add_sub_cancel_left,
        ih b j r (by simpa using hi) hr]
      simp

theorem length_refineFrom (k : ℕ) (l : List α) (a : α) : (refineFrom k a l).length = k * l.length := by
  induction l generalizing a with
  | nil => simp [refineFrom]
  | cons b rest ih => simp [refineFrom, length_refinePanel, ih, Nat.mul_succ, Nat.add_comm]

theorem length_refine (k : ℕ) (x : List α) (hx : x ≠ []) : (refine k x).length = k * (x.length - 1) + 1 := by
  cases x with
  | nil => exact absurd rfl hx
  | cons a rest => simp [refine, length_refineFrom]

/-- sample `k·i + r + 1` (`r < k`, `i + 1 < n`) of the refined record -/
theorem refine_getElem?_gen (k : ℕ) (x : List α) (i r : ℕ) (hi : i + 1 < x.length) (hr : r < k) :
    (refine k x)[k * i + r + 1]? =
      some (x.getD i 0 + (x.getD (i + 1) 0 - x.getD i 0) * ((r + 1 : ℕ) : α) / (k : α)) := by
  cases x with
  | nil => simp at hi
  | cons a rest =>
    rw [refine, List.getElem?_cons_succ, refineFrom_getElem?_gen k rest a i r (by simpa using hi) hr]
    simp

theorem refine_getElem?_zero (k : ℕ) (x : List α) : (refine k x)[0]? = x[0]? := by
  cases x <;> simp [refine]

end RefineGen

/-! ## `interp_array_to_approx_dt(…, even=False)` with an integer factor is `refine` plus a constant tail -/

/-- sample `j` of the refined rational record is the unit-grid interpolant at `j/k` -/
theorem refine_getElem?_interpUnit (x : List ℚ) (k : ℕ) (hk : 1 ≤ k) (hne : x ≠ []) (l r : ℚ) (j : ℕ)
    (hj : j < k * (x.length - 1) + 1) :
    (refine k x)[j]? = some (interpUnit x l r ((j : ℚ) / (k : ℚ))) := by
  have hk0 : (0 : ℚ) < (k : ℚ) := by exact_mod_cast (by omega : 0 < k)
  cases j with
  | zero =>
    have hx : 0 < x.length := List.length_pos_of_ne_nil hne
    rw [refine_getElem?_zero, List.getElem?_eq_getElem hx]
    have : ((0 : ℕ) : ℚ) / (k : ℚ) = ((0 : ℕ) : ℚ) := by simp
    rw [this, interpUnit_node _ _ _ _ hx, getD_of_lt _ _ hx]
  | succ j' =>
    -- j' = k * i + r', i < n - 1
    have hkpos : 0 < k := by omega
    obtain ⟨i, r', hdecomp, hrk⟩ : ∃ i r', j' = k * i + r' ∧ r' < k :=
      ⟨j' / k, j' % k, (Nat.div_add_mod j' k).symm, Nat.mod_lt _ hkpos⟩
    have hin : i < x.length - 1 := by
      by_contra hc
      have := Nat.mul_le_mul_left k (not_lt.1 hc)
      omega
    have hi1 : i + 1 < x.length := by omega
    have e1 : j' + 1 = k * i + r' + 1 := by omega
    rw [e1, refine_getElem?_gen k x i r' hi1 hrk]
    congr 1
    by_cases hlast : r' + 1 = k
    · have hq : (((k * i + r' + 1 : ℕ)) : ℚ) / (k : ℚ) = ((i + 1 : ℕ) : ℚ) := by
        have : k * i + r' + 1 = k * (i + 1) := by rw [Nat.mul_succ]; omega
        rw [this]; push_cast; field_simp
      rw [hq, interpUnit_node _ _ _ _ hi1]
      have : ((r' + 1 : ℕ) : ℚ) = (k : ℚ) := by exact_mod_cast hlast
      rw [this]; field_simp; ring
    · have hlt : r' + 1 < k := by omega
      have hq : (((k * i + r' + 1 : ℕ)) : ℚ) / (k : ℚ) = (i : ℚ) + ((r' + 1 : ℕ) : ℚ) / (k : ℚ) := by
        push_cast; field_simp; ring
      have ht0 : (0 : ℚ) ≤ ((r' + 1 : ℕ) : ℚ) / (k : ℚ) := by positivity
      have ht1 : ((r' + 1 : ℕ) : ℚ) / (k : ℚ) < 1 := by
        rw [div_lt_one hk0]; exact_mod_cast hlt
      rw [hq, interpUnit_between _ _ _ i _ hi1 ht0 ht1]
      ring

/-- **`interp_array_to_approx_dt(values, dt, dt/k, even=False)` = linear refinement + `k − 1` copies of the last
sample** (the abscissae `j/k`, `j > k(n−1)`, lie to the right of the record: `np.interp` returns `values[-1]`). -/
theorem interpValues_eq_refine (x : List ℚ) (k : ℕ) (hk : 1 ≤ k) (hx : x ≠ []) :
    interpValues x (k : ℚ) false = refine k x ++ List.replicate (k - 1) (x.getD (x.length - 1) 0) := by
  have hn : 0 < x.length := List.length_pos_of_ne_nil hx
  have hk0 : (0 : ℚ) < (k : ℚ) := by exact_mod_cast (by omega : 0 < k)
  have hlenL : (interpValues x (k : ℚ) false).length = k * x.length := by
    rw [length_interpValues, outLen_refine_odd]
  have hlenR : (refine k x).length = k * (x.length - 1) + 1 := length_refine k x hx
  have hkn : k * x.length = k * (x.length - 1) + 1 + (k - 1) := by
    obtain ⟨m, hm⟩ : ∃ m, x.length = m + 1 := ⟨x.length - 1, by omega⟩
    rw [hm, Nat.add_sub_cancel, Nat.mul_succ]; omega
  apply List.ext_getElem?
  intro j
  by_cases hj : j < k * x.length
  · rw [List.getElem?_eq_getElem (by rw [hlenL]; exact hj), interpValues_getElem]
    by_cases hj1 : j < k * (x.length - 1) + 1
    · rw [List.getElem?_append_left (by rw [hlenR]; exact hj1)]
      exact (refine_getElem?_interpUnit x k hk hx _ _ j hj1).symm
    · rw [List.getElem?_append_right (by rw [hlenR]; omega), hlenR,
        List.getElem?_replicate, if_pos (by omega)]
      congr 1
      apply interpUnit_right _ _ _ _ hx
      rw [lt_div_iff₀ hk0]
      have : (x.length - 1) * k < j := by rw [Nat.mul_comm]; omega
      exact_mod_cast this
  · have h1 : (interpValues x (k : ℚ) false)[j]? = none :=
      List.getElem?_eq_none (by rw [hlenL]; omega)
    have h2 : (refine k x ++ List.replicate (k - 1) (x.getD (x.length - 1) 0))[j]? = none :=
      List.getElem?_eq_none (by rw [List.length_append, hlenR, List.length_replicate]; omega)
    rw [h1, h2]

/-- every original sample reappears at index `k·i` -/
theorem interpValues_retains (x : List ℚ) (k : ℕ) (hk : 1 ≤ k) (i : ℕ) (hi : i < x.length) :
    (interpValues x (k : ℚ) false)[k * i]? = x[i]? := by
  have hlen : (interpValues x (k : ℚ) false).length = k * x.length := by
    rw [length_interpValues, outLen_refine_odd]
  have hlt : k * i < k * x.length := Nat.mul_lt_mul_of_pos_left hi (by omega)
  rw [List.getElem?_eq_getElem (by rw [hlen]; exact hlt), interpValues_getElem, List.getElem?_eq_getElem hi]
  have hkq : (k : ℚ) ≠ 0 := by exact_mod_cast (by omega : k ≠ 0)
  have : (((k * i : ℕ)) : ℚ) / (k : ℚ) = (i : ℚ) := by push_cast; field_simp
  rw [this, interpUnit_node _ _ _ _ hi, getD_of_lt _ _ hi]

/-! ## refinement commutes with the cast `ℚ → ℝ` -/

theorem refinePanel_cast (k : ℕ) (a b : ℚ) :
    (refinePanel k a b).map (Rat.cast : ℚ → ℝ) = refinePanel k (a : ℝ) (b : ℝ) := by
  simp only [refinePanel, List.map_map]
  apply List.map_congr_left
  intro m _
  simp only [Function.comp]
  push_cast
  ring

theorem refineFrom_cast (k : ℕ) (l : List ℚ) : ∀ a : ℚ,
    (refineFrom k a l).map (Rat.cast : ℚ → ℝ) = refineFrom k (a : ℝ) (l.map (Rat.cast : ℚ → ℝ)) := by
  induction l with
  | nil => intro a; rfl
  | cons b rest ih => intro a; simp only [refineFrom, List.map_append, List.map_cons, refinePanel_cast, ih]

theorem refine_cast (k : ℕ) (x : List ℚ) :
    (refine k x).map (Rat.cast : ℚ → ℝ) = refine k (x.map (Rat.cast : ℚ → ℝ)) := by
  cases x with
  | nil => rfl
  | cons a rest => simp only [refine, List.map_cons, refineFrom_cast]

/-- the interpolated record over `ℝ`: refinement of the cast record plus a tail -/
theorem interpValues_cast (x : List ℚ) (k : ℕ) (hk : 1 ≤ k) (hx : x ≠ []) :
    (interpValues x (k : ℚ) false).map (Rat.cast : ℚ → ℝ) =
      refine k (x.map (Rat.cast : ℚ → ℝ)) ++ List.replicate (k - 1) ((x.getD (x.length - 1) 0 : ℚ) : ℝ) := by
  rw [interpValues_eq_refine x k hk hx, List.map_append, refine_cast, List.map_replicate]

/-! ## the tail does not matter at the original instants -/
open EqsigVerif.Gen.SdofAB

theorem sampled3_of_prefix (k n : ℕ) (X tail : List ℝ) (G : List ℝ → List ℝ × List ℝ × List ℝ)
    (C : List ℝ × List ℝ × List ℝ)
    (hG : ∀ (a : List ℝ) (m : ℕ), G (a.take m) = map3 (List.take m) (G a))
    (hX : ∀ i, i < n → k * i < X.length)
    (hs : Sampled3 k n (G X) C) : Sampled3 k n (G (X ++ tail)) C := by
  intro i hi
  have h := hs i hi
  have hpre : G X = map3 (List.take X.length) (G (X ++ tail)) := by
    rw [← hG, List.take_left']
    rfl
  rw [hpre] at h
  simp only [map3, List.getElem?_take, hX i hi, if_true] at h
  exact h

theorem rowOf_take (c : ℝ) (ab : ℝ → AB ℝ) (xi T : ℝ) (a : List ℝ) (m : ℕ) :
    rowOf c ab xi (a.take m) T = map3 (List.take m) (rowOf c ab xi a T) := by
  simp only [rowOf, List.map_take]
  exact rowFor_take _ _ _ _ _

theorem refine_sample_lt (k : ℕ) (hk : 1 ≤ k) (x : List ℝ) (i : ℕ) (hi : i < x.length) :
    k * i < (refine k x).length := by
  have hx : x ≠ [] := by intro h; rw [h] at hi; simp at hi
  rw [length_refine k x hx]
  have : k * i ≤ k * (x.length - 1) := Nat.mul_le_mul_left k (by omega)
  omega

/-- a row of the response to the interpolated record at step `dt/k`, read at the multiples of `k`, is the row of the
response to the original record at step `dt` (non-zero period) -/
theorem rowOf_interp_sampled (c xi dt T : ℝ) (hc : 0 < c) (hT : 0 < T) (hdt : 0 < dt) (h0 : 0 ≤ xi) (h1 : xi < 1)
    (k : ℕ) (hk : 1 ≤ k) (x : List ℚ) (hx : x ≠ []) :
    Sampled3 k x.length
      (rowOf c (fun w => computeABReal xi w (dt / k)) xi ((interpValues x (k : ℚ) false).map (Rat.cast : ℚ → ℝ)) T)
      (rowOf c (fun w => computeABReal xi w dt) xi (x.map (Rat.cast : ℚ → ℝ)) T) := by
  rw [interpValues_cast x k hk hx]
  have hs := rowOf_refine c xi dt T hc hT hdt h0 h1 k hk (x.map (Rat.cast : ℚ → ℝ))
  rw [List.length_map] at hs
  exact sampled3_of_prefix k x.length _ _ (fun a => rowOf c _ xi a T) _
    (fun a m => rowOf_take c _ xi T a m)
    (fun i hi => refine_sample_lt k hk _ i (by simpa using hi)) hs

/-- the same for the row of a leading zero period -/
theorem zeroRow_interp_sampled (k : ℕ) (hk : 1 ≤ k) (x : List ℚ) (hx : x ≠ []) :
    Sampled3 k x.length (zeroRow ((interpValues x (k : ℚ) false).map (Rat.cast : ℚ → ℝ)))
      (zeroRow (x.map (Rat.cast : ℚ → ℝ))) := by
  rw [interpValues_cast x k hk hx]
  have hs := zeroRow_refine k hk (x.map (Rat.cast : ℚ → ℝ))
  rw [List.length_map] at hs
  exact sampled3_of_prefix k x.length _ _ (fun a => zeroRow a) _
    (fun a m => zeroRow_take a m)
    (fun i hi => refine_sample_lt k hk _ i (by simpa using hi)) hs

/-! ## rows of `respRowsU` -/

/-- the test `periods[0] == 0` over `ℝ` -/
noncomputable def isZR : ℝ → Bool := fun p => decide (p = 0)

/-- the row of the response for period position `j` -/
noncomputable def rowAt (c : ℝ) (isZero : ℝ → Bool) (ab : ℝ → AB ℝ) (xi : ℝ) (motion ps : List ℝ) (j : ℕ) :
    List ℝ × List ℝ × List ℝ :=
  if j = 0 ∧ isZero (ps.getD 0 0) = true then zeroRow motion else rowOf c ab xi motion (ps.getD j 0)

theorem response_getD (c : ℝ) (isZero : ℝ → Bool) (ab : ℝ → AB ℝ) (xi : ℝ) (motion ps : List ℝ)
    (R : List (List ℝ × List ℝ × List ℝ)) (h : response c isZero ab xi motion ps = some R) :
    R.length = ps.length ∧ ∀ j, j < ps.length → R[j]? = some (rowAt c isZero ab xi motion ps j) := by
  cases ps with
  | nil => simp [response] at h
  | cons p0 rest =>
    cases hz : isZero p0 with
    | true =>
      rw [response_cons_zero _ _ _ _ _ _ _ hz, Option.some.injEq] at h
      subst h
      refine ⟨by simp, fun j hj => ?_⟩
      cases j with
      | zero => simp [rowAt, hz]
      | succ j =>
        have hj' : j < rest.length := by simpa using hj
        simp [rowAt, List.getElem?_map, List.getElem?_eq_getElem hj', List.getD_eq_getElem?_getD]
    | false =>
      rw [response_cons_nonzero _ _ _ _ _ _ _ hz, Option.some.injEq] at h
      subst h
      refine ⟨by simp, fun j hj => ?_⟩
      have hne : ¬ (j = 0 ∧ isZero ((p0 :: rest).getD 0 0) = true) := by simp [hz]
      simp only [rowAt, hne, if_false]
      rw [List.getElem?_map, List.getElem?_eq_getElem hj]
      simp [List.getD_eq_getElem?_getD, List.getElem?_eq_getElem hj]

theorem respRowsU_getD (c : ℝ) (isZero : ℝ → Bool) (ab : ℝ → ℝ → ℝ → AB ℝ) (xi : ℝ) (motion : List ℝ) (dt : ℝ)
    (ps : List ℝ) (u : List (List ℝ)) (h : respRowsU c isZero ab xi motion dt ps = .ok u) :
    u.length = ps.length ∧
      ∀ j, j < ps.length → u.getD j [] = (rowAt c isZero (fun w => ab xi w dt) xi motion ps j).1 := by
  unfold respRowsU at h
  cases hR : response c isZero (fun w => ab xi w dt) xi motion ps with
  | none => simp [hR] at h
  | some R =>
    simp only [hR, Except.ok.injEq] at h
    subst h
    obtain ⟨hl, hj⟩ := response_getD c isZero _ xi motion ps R hR
    refine ⟨by simp [hl], fun j hjl => ?_⟩
    simp [List.getD_eq_getElem?_getD, List.getElem?_map, hj j hjl]

theorem rowAt_length (c : ℝ) (isZero : ℝ → Bool) (ab : ℝ → AB ℝ) (xi : ℝ) (motion ps : List ℝ) (j : ℕ) :
    (rowAt c isZero ab xi motion ps j).1.length = motion.length := by
  unfold rowAt
  split
  · exact (zeroRow_lengths motion).1
  · have := (rowFor_lengths ab xi (c / ps.getD j 0) (motion.map (fun x => -x))).1
    simpa [rowOf] using this

/-- all rows at once: positive periods, or a leading zero period -/
theorem rowAt_interp_sampled (c xi dt : ℝ) (hc : 0 < c) (hdt : 0 < dt) (h0 : 0 ≤ xi) (h1 : xi < 1)
    (k : ℕ) (hk : 1 ≤ k) (x : List ℚ) (hx : x ≠ []) (isZero : ℝ → Bool) (ps : List ℝ) (j : ℕ)
    (hps : (j = 0 ∧ isZero (ps.getD 0 0) = true) ∨ 0 < ps.getD j 0) :
    Sampled3 k x.length
      (rowAt c isZero (fun w => computeABReal xi w (dt / k)) xi
        ((interpValues x (k : ℚ) false).map (Rat.cast : ℚ → ℝ)) ps j)
      (rowAt c isZero (fun w => computeABReal xi w dt) xi (x.map (Rat.cast : ℚ → ℝ)) ps j) := by
  unfold rowAt
  by_cases hz : j = 0 ∧ isZero (ps.getD 0 0) = true
  · simp only [hz, and_self, if_true]
    exact zeroRow_interp_sampled k hk x hx
  · simp only [hz, if_false]
    rcases hps with h | h
    · exact absurd h hz
    · exact rowOf_interp_sampled c xi dt _ hc h hdt h0 h1 k hk x hx

/-! ## `IsAbsMax` under sampling -/

theorem IsAbsMax.le_of_sampled {l L : List ℝ} {m M : ℝ} (hl : IsAbsMax l m) (hL : IsAbsMax L M)
    (h : ∀ i : ℕ, i < l.length → ∃ k' : ℕ, L[k']? = l[i]?) : m ≤ M := by
  obtain ⟨x, hx, hxm⟩ := hl.2
  obtain ⟨i, hi, rfl⟩ := List.getElem_of_mem hx
  obtain ⟨k', hk'⟩ := h i hi
  rw [List.getElem?_eq_getElem hi] at hk'
  rw [← hxm]
  exact hL.1 _ (List.mem_of_getElem? hk')

/-! ## what `pseudoSpectra` returns (the content of `C03.pseudo_spectra_spec`, as a lemma) -/

theorem pseudoSpectra_ok {α : Type} [Field α] [LinearOrder α] [IsStrictOrderedRing α]
    (twoPi dt : α) (motion periods : List α) (u : List (List α)) (sds svs sas : List α)
    (h : pseudoSpectra twoPi motion dt periods u = .ok (sds, svs, sas)) :
    sds.length = periods.length ∧ svs.length = periods.length ∧ sas.length = periods.length ∧
    u.length = periods.length ∧
    ∃ pga, IsAbsMax motion pga ∧
      ∀ j, j < periods.length →
        IsAbsMax (u.getD j []) (sds.getD j 0) ∧
        svs.getD j 0 = omegaAt twoPi periods j * sds.getD j 0 ∧
        sas.getD j 0 = (if periods.getD j 0 < dt * 6 then pga
                        else omegaAt twoPi periods j * omegaAt twoPi periods j * sds.getD j 0) := by
  unfold pseudoSpectra at h
  cases hw : omegas twoPi periods with
  | error e => simp [hw] at h
  | ok w =>
    simp only [hw] at h
    by_cases hlen : u.length ≠ periods.length
    · simp [hlen] at h
    · have hlen' : u.length = periods.length := by simpa using hlen
      simp only [hlen, if_false] at h
      cases hs : rowsAbsmax u with
      | error e => simp [hs] at h
      | ok sds' =>
        simp only [hs] at h
        cases hp : absmaxL motion with
        | none => simp [hp] at h
        | some pga =>
          simp only [hp, Except.ok.injEq, Prod.mk.injEq] at h
          obtain ⟨h1, h2, h3⟩ := h
          subst h1; subst h2
          obtain ⟨hwl, hwj⟩ := omegas_spec twoPi periods w hw
          obtain ⟨hsl, hsj⟩ := rowsAbsmax_spec u sds' hs
          have hsl' : sds'.length = periods.length := by rw [hsl, hlen']
          have hsasl : (List.zipWith (fun w sd => w * w * sd) w sds').length = periods.length := by
            simp [hwl, hsl']
          obtain ⟨hpl, hpj⟩ := pgaSubstitute_spec periods dt pga _ hsasl
          refine ⟨hsl', by simp [hwl, hsl'], by rw [← h3]; exact hpl, hlen', pga,
            absmaxL_spec motion pga hp, fun j hj => ⟨?_, ?_, ?_⟩⟩
          · exact absmaxL_spec _ _ (hsj j (by omega))
          · rw [getD_zipWith _ _ _ j (by omega) (by omega) 0 0 0, hwj j hj]
          · rw [← h3, hpj j hj, getD_zipWith _ _ _ j (by omega) (by omega) 0 0 0, hwj j hj]

/-! ## the composed function returns a value on every non-empty record with a non-empty period list -/

theorem rowsAbsmax_isOk {α : Type} [Field α] [LinearOrder α] [IsStrictOrderedRing α] (rows : List (List α))
    (h : ∀ r ∈ rows, r ≠ []) : ∃ ms, rowsAbsmax rows = .ok ms := by
  induction rows with
  | nil => exact ⟨[], rfl⟩
  | cons r rs ih =>
    obtain ⟨m, hm⟩ := absmaxL_isSome r (h r (by simp))
    obtain ⟨ms, hms⟩ := ih (fun r' hr' => h r' (by simp [hr']))
    exact ⟨m :: ms, by simp [rowsAbsmax, hm, hms]⟩

theorem omegas_isOk {α : Type} [Field α] [LinearOrder α] [IsStrictOrderedRing α] (twoPi : α) (ps : List α)
    (hp : ps ≠ []) : ∃ w, omegas twoPi ps = .ok w := by
  cases ps with
  | nil => exact absurd rfl hp
  | cons p0 rest =>
    simp only [omegas]
    split <;> exact ⟨_, rfl⟩

theorem pseudoResponseSpectra_isOk (twoPi c xi : ℝ) (isZero : ℝ → Bool) (ab : ℝ → ℝ → ℝ → AB ℝ)
    (motion : List ℝ) (dt : ℝ) (ps : List ℝ) (hm : motion ≠ []) (hp : ps ≠ []) :
    ∃ s, pseudoResponseSpectra twoPi (respRowsU c isZero ab xi) motion dt ps = .ok s := by
  have hsome := (response_isSome_iff c isZero (fun w => ab xi w dt) xi motion ps).2 hp
  obtain ⟨R, hR⟩ := Option.isSome_iff_exists.1 hsome
  obtain ⟨hlen, hrows⟩ := response_shape c isZero (fun w => ab xi w dt) xi motion ps R hR
  have hu : respRowsU c isZero ab xi motion dt ps = .ok (R.map (·.1)) := by simp [respRowsU, hR]
  obtain ⟨w, hw⟩ := omegas_isOk twoPi ps hp
  obtain ⟨ms, hms⟩ := rowsAbsmax_isOk (R.map (·.1)) (by
    intro r hr
    obtain ⟨row, hrow, rfl⟩ := List.mem_map.1 hr
    intro h0
    have := (hrows row hrow).1
    rw [h0] at this
    exact hm (List.eq_nil_of_length_eq_zero this.symm))
  obtain ⟨pga, hpga⟩ := absmaxL_isSome motion hm
  have : pseudoResponseSpectra twoPi (respRowsU c isZero ab xi) motion dt ps =
      .ok (ms, List.zipWith (fun w sd => w * sd) w ms,
        pgaSubstitute ps dt pga (List.zipWith (fun w sd => w * w * sd) w ms)) := by
    simp only [pseudoResponseSpectra, hu, pseudoSpectra, hw, List.length_map, hlen, ne_eq, not_true_eq_false,
      if_false, hms, hpga]
  exact ⟨_, this⟩

end EqsigVerif.Lemmas.ObjectSpectra
