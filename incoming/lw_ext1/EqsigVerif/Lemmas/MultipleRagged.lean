import EqsigVerif.Lemmas.Multiple
/-!
# `Cluster.time_match` on ragged clusters: when the lag search succeeds, when NumPy's broadcasting fails
-/
set_option linter.unusedVariables false
namespace EqsigVerif.Model.Multiple
open EqsigVerif
open EqsigVerif.Wire (ErrKind)
open EqsigVerif.Model.Single (pySlice pyTo pyFrom normIdx)

/-- the lag search returns a value on records of one length `n ≥ steps ≥ 1` -/
theorem lagSearch_isOk (bm om : List ℚ) (n S : ℕ) (hbm : bm.length = n) (hom : om.length = n)
    (hS1 : 1 ≤ S) (hS : S ≤ n) : ∃ mi, lagSearch bm om S = .ok mi := by
  unfold lagSearch
  rw [res0_eq bm om n S hbm hom hS1 hS]
  simp only
  rw [scan_eq_pure _ (lagSum bm om (n - S)) _ _ _
    (fun i hi => resLag_eq bm om n S i hbm hom hS (List.mem_range.mp hi))]
  simp only
  rw [scan_eq_pure _ (leadSum bm om (n - S)) _ _ _
    (fun i hi => resLead_eq bm om n S i hbm hom hS (List.mem_range.mp hi))]
  exact ⟨_, rfl⟩

/-- `len(x[0:-S]) = max(len x − S, 0)` for `S ≥ 1` -/
theorem length_slice_base {α : Type} (x : List α) (S : ℕ) (hS1 : 1 ≤ S) :
    (pySlice x 0 (-(S : ℤ))).length = x.length - S := by
  unfold pySlice normIdx
  have h1 : (-(S : ℤ)) < 0 := by omega
  have h2 : ¬ ((0 : ℤ) < 0) := by omega
  simp only [h1, h2, if_true, if_false]
  simp only [Int.toNat_zero, Nat.zero_min, List.drop_zero, List.length_take]
  omega

/-- NumPy cannot broadcast two 1-d arrays of different lengths unless one has length 1 -/
theorem ssd_valueError (a b : List ℚ) (hab : a.length ≠ b.length) (ha : a.length ≠ 1) (hb : b.length ≠ 1) :
    ssd a b = .error .ValueError := by
  unfold ssd npSub?
  simp only [hab, if_false]
  rcases a with _ | ⟨x, _ | ⟨x', xs⟩⟩ <;> rcases b with _ | ⟨y, _ | ⟨y', ys⟩⟩ <;> simp at ha hb hab ⊢

/-- a slave whose compared window is shorter than the master's (neither of length 1) makes the search raise -/
theorem lagSearch_valueError (bm om : List ℚ) (S : ℕ) (hS1 : 1 ≤ S)
    (hne : bm.length - S ≠ om.length - S) (h1 : bm.length - S ≠ 1) (h2 : om.length - S ≠ 1) :
    lagSearch bm om S = .error .ValueError := by
  unfold lagSearch
  rw [ssd_valueError _ _ (by rw [length_slice_base _ _ hS1, length_slice_base _ _ hS1]; exact hne)
    (by rw [length_slice_base _ _ hS1]; exact h1) (by rw [length_slice_base _ _ hS1]; exact h2)]

/-- the loop stops with the error of the first slave whose lag search fails, when all earlier slaves go through -/
theorem timeMatchAux_error (bm : List ℚ) (lc master steps : ℕ) (e : ErrKind) (signals : List (List ℚ)) :
    ∀ (i : ℕ) (lag : Option ℤ) (k : ℕ) (s : List ℚ), signals[k]? = some s → i + k ≠ master →
      lagSearch bm (s.take lc) steps = .error e →
      (∀ k' s', k' < k → signals[k']? = some s' → i + k' ≠ master →
        ∃ mi o, lagSearch bm (s'.take lc) steps = .ok mi ∧ shiftSlave s' (s'.take lc) mi = .ok o) →
      timeMatchAux bm lc master steps i signals lag = .error e := by
  induction signals with
  | nil => intro i lag k s hk; simp at hk
  | cons s0 rest ih =>
    intro i lag k s hk hkm herr hbefore
    cases k with
    | zero =>
      simp only [List.getElem?_cons_zero, Option.some.injEq] at hk
      subst hk
      have him : i ≠ master := by simpa using hkm
      simp only [timeMatchAux, him, ne_eq, not_false_eq_true, if_true, herr]
    | succ k =>
      simp only [List.getElem?_cons_succ] at hk
      have hrec : ∀ lag', timeMatchAux bm lc master steps (i + 1) rest lag' = .error e := by
        intro lag'
        apply ih (i + 1) lag' k s hk (by omega) herr
        intro k' s' hk' hs' hne
        exact hbefore (k' + 1) s' (by omega) (by simpa using hs') (by omega)
      by_cases him : i ≠ master
      · obtain ⟨mi, o, a1, a2⟩ := hbefore 0 s0 (by omega) (by simp) (by simpa using him)
        simp only [timeMatchAux, him, ne_eq, not_false_eq_true, if_true, a1, a2, hrec]
      · simp only [timeMatchAux, him, if_false, hrec]

end EqsigVerif.Model.Multiple
