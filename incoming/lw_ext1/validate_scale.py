"""impl-vs-impl sanity check of the scale-invariance theorems of Props/C13Scale.lean (item 1).
Run: cd /repo && PYTHONPATH=/repo /venv/bin/python validate_scale.py"""
import numpy as np, itertools, random
from eqsig.fns import peaks_and_crossings as pc
import eqsig.im as im
random.seed(1)
n_ok = 0
recs = [list(t) for n in range(1, 6) for t in itertools.product([-2, -1, 0, 1, 3], repeat=n)][::7]
recs += [[random.randint(-6, 6) for _ in range(random.randint(6, 30))] for _ in range(200)]
for v in recs:
    v = np.array(v, dtype=float)
    for a in (2.0, 0.5, -1.0, -4.0):
        assert np.array_equal(pc.get_peak_array_indices(a * v), pc.get_peak_array_indices(v)), (v, a)
        if a > 0:
            for pt in ('max', 'min'):
                assert np.array_equal(pc.get_peak_array_indices(a * v, ptype=pt), pc.get_peak_array_indices(v, ptype=pt)), (v, a, pt)
        for tol in (0.0, 1.0, 2.5):
            assert np.array_equal(pc.get_switched_peak_array_indices(a * v, tol=abs(a) * tol),
                                  pc.get_switched_peak_array_indices(v, tol=tol)), (v, a, tol)
            for k in (False, True):
                assert np.array_equal(pc.get_zero_crossings_array_indices(a * v, keep_adj_zeros=k, tol=abs(a) * tol),
                                      pc.get_zero_crossings_array_indices(v, keep_adj_zeros=k, tol=tol)), (v, a, k, tol)
        if len(v) > 2 and np.max(np.abs(v)) > 0:
            x = im.calc_cyc_amp_array_w_power_law(a * v, 3.0, 0.5); y = abs(a) * im.calc_cyc_amp_array_w_power_law(v, 3.0, 0.5)
            assert np.allclose(x, y, rtol=1e-12, atol=0), (v, a)
            if np.all(np.abs(np.take(v, pc.get_switched_peak_array_indices(v))) > 0):
                x = im.calc_n_cyc_array_w_power_law(a * v, abs(a) * 2.0, 0.5, cut_off=0.0)
                y = im.calc_n_cyc_array_w_power_law(v, 2.0, 0.5, cut_off=0.0)
                assert np.allclose(x, y, rtol=1e-12, atol=0), (v, a)
        n_ok += 1
print("scale invariance holds on", n_ok, "(record, alpha) pairs")
