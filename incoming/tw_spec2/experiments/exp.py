import json, os, shutil, subprocess, sys
ROOT = '/tmp/tw_spec2/verif'
SRC = '/tmp/tw_spec2/src'
GEN = ROOT + '/lean/EqsigVerif/Gen'
MINE = ['SpecEnergy.lean', 'SpecObject.lean', 'SpecIm.lean', 'SpecSlow.lean']
TG = {'gen_spec_energy', 'gen_spec_object', 'gen_spec_im', 'gen_spec_slow'}
S, G, I = 'sdof.py', 'single.py', 'im.py'
BREAK = [
 (S, "kin_energy = 0.5 * resp_v ** 2 * mass", "kin_energy = 0.25 * resp_v ** 2 * mass", 0),
 (S, "mass = 1", "mass = 2", 0),
 (S, "delta_energy = np.diff(kin_energy)", "delta_energy = np.diff(kin_energy, axis=0)", 0),
 (S, "cum_delta_energy = np.sum(abs(delta_energy), axis=1)", "cum_delta_energy = np.sum(delta_energy, axis=1)", 0),
 (S, "cum_delta_energy = np.sum(abs(delta_energy), axis=1)", "cum_delta_energy = np.sum(abs(delta_energy), axis=0)", 0),
 (S, "kin_energy = 0.5 * resp_v ** 2 * mass", "kin_energy = 0.5 * resp_u ** 2 * mass", 0),
 (S, "        xi = 0.05\n    resp_u, resp_v, resp_a = response_series(acc_signal.values, acc_signal.dt, periods, xi)\n    mass", "        xi = 0.5\n    resp_u, resp_v, resp_a = response_series(acc_signal.values, acc_signal.dt, periods, xi)\n    mass", 0),
 (S, "    if periods is None:\n        periods = acc_signal.response_times\n    if xi is None:", "    if periods is not None:\n        periods = acc_signal.response_times\n    if xi is None:", 0),
 (S, "return np.cumsum(acc_signal.values * resp_v * acc_signal.dt, axis=1)", "return np.cumsum(acc_signal.values * resp_u * acc_signal.dt, axis=1)", 0),
 (S, "return np.sum(acc_signal.values * resp_v * acc_signal.dt, axis=1)", "return np.sum(acc_signal.values * resp_v, axis=1)", 0),
 (S, "    if series:", "    if not series:", 0),
 (S, "response_series(acc_signal.values, acc_signal.dt, periods, xi)\n    mass", "response_series(acc_signal.values, acc_signal.dt, xi, periods)\n    mass", 0),
 (S, "series=False", "series=True", 0),
 (S, "return np.cumsum(acc_signal.values * resp_v * acc_signal.dt, axis=1)", "return np.cumsum(acc_signal.values * resp_v * acc_signal.dt, axis=0)", 0),
 (S, "return np.sum(acc_signal.values * resp_v * acc_signal.dt, axis=1)", "return np.sum(acc_signal.values + resp_v * acc_signal.dt, axis=1)", 0),
 (G, "min_non_zero_period / 20", "min_non_zero_period / 10", 0),
 (G, "self.dt / min_dt_ratio", "self.dt * min_dt_ratio", 0),
 (G, "if self.response_times[0] != 0:", "if self.response_times[0] == 0:", 0),
 (G, "min_non_zero_period = self.response_times[1]", "min_non_zero_period = self.response_times[2]", 0),
 (G, "target_dt = max(min_non_zero_period", "target_dt = min(min_non_zero_period", 0),
 (G, "if target_dt < self.dt:", "if target_dt <= self.dt:", 0),
 (G, "target_dt, even=False)", "target_dt, even=True)", 0),
 (G, "interp_array_to_approx_dt(self.values, self.dt, target_dt, even=False)", "interp_array_to_approx_dt(self.values, target_dt, self.dt, even=False)", 0),
 (G, "if xi == -1:", "if xi == -2:", 0),
 (G, "self._cached_xi = 0.05", "self._cached_xi = 0.02", 0),
 (G, "self._s_d, self._s_v, self._s_a = dh.pseudo", "self._s_v, self._s_d, self._s_a = dh.pseudo", 0),
 (G, "dh.pseudo_response_spectra(values_interp, dt_interp, self.response_times, xi)", "dh.pseudo_response_spectra(self.values, dt_interp, self.response_times, xi)", 0),
 (G, "def gen_response_spectrum(self, response_times=None, xi=-1, min_dt_ratio=4):", "def gen_response_spectrum(self, response_times=None, xi=-1, min_dt_ratio=2):", 0),
 (G, "            dt_interp = self.dt\n", "            dt_interp = target_dt\n", 0),
 (G, "        if response_times is not None:\n            self.response_times = response_times\n        if self.response_times[0]", "        if response_times is None:\n            self.response_times = response_times\n        if self.response_times[0]", 0),
 (G, "dh.pseudo_response_spectra(values_interp, dt_interp, self.response_times, xi)", "dh.true_response_spectra(values_interp, dt_interp, self.response_times, xi)", 0),
 (G, "min_non_zero_period = self.response_times[0]", "min_non_zero_period = self.response_times[1]", 0),
 (I, "np.arange(0.1, 1.51, 0.01)", "np.arange(0.1, 1.5, 0.01)", 0),
 (I, "return max(0.01*cumulative_trapezoid(abs(psa)))/9.81", "return max(0.01*cumulative_trapezoid(abs(psv)))/9.81", 0),
 (I, "return max(0.01*cumulative_trapezoid(abs(psa)))/9.81", "return max(0.01*cumulative_trapezoid(abs(psa)))/9.8", 0),
 (I, "return max(0.01*cumulative_trapezoid(abs(psa)))/9.81", "return max(0.02*cumulative_trapezoid(abs(psa)))/9.81", 0),
 (I, "return max(0.01*cumulative_trapezoid(abs(psa)))/9.81", "return max(0.01*cumulative_trapezoid(psa))/9.81", 0),
 (I, "return max(0.01*cumulative_trapezoid(abs(psa)))/9.81", "return min(0.01*cumulative_trapezoid(abs(psa)))/9.81", 0),
 (I, "return max(0.01*cumulative_trapezoid(abs(psv)))  # in m", "return max(0.01*cumulative_trapezoid(abs(psa)))  # in m", -1),
 (I, "    sds, psv, psa = sdof.pseudo_response_spectra(asig.values, asig.dt, periods, xi=xi)\n    return max(0.01*cumulative_trapezoid(abs(psa)))", "    psv, sds, psa = sdof.pseudo_response_spectra(asig.values, asig.dt, periods, xi=xi)\n    return max(0.01*cumulative_trapezoid(abs(psa)))", 0),
 (I, "def calc_asi(asig, xi=0.05, periods=None):", "def calc_asi(asig, xi=0.02, periods=None):", 0),
 (I, "sds_time = np.maximum.accumulate(resp_u, axis=1)", "sds_time = np.maximum.accumulate(resp_v, axis=1)", 0),
 (I, "    w = 2 * np.pi / periods", "    w = np.pi / periods", 0),
 (I, "return 0.01 * np.trapz(abs(psv), axis=0)", "return 0.01 * np.trapz(abs(psv), axis=1)", 0),
 (I, "psv = w[:, np.newaxis] * sds_time", "psv = w * sds_time", 0),
 (I, "return 0.01 * np.trapz(abs(psv), axis=0)", "return 0.01 * np.trapz(psv, axis=0)", 0),
 (I, "sds_time = np.maximum.accumulate(resp_u, axis=1)", "sds_time = np.minimum.accumulate(resp_u, axis=1)", 0),
 (I, 'if fun_name == "arias_intensity":', 'if fun_name == "arias":', 0),
 (I, "rs = _raw_calc_arias_intensity(resp_a, acc_signal.dt)", "rs = _raw_calc_arias_intensity(resp_v, acc_signal.dt)", 0),
 (I, "        raise ValueError\n    return rs", "        raise TypeError\n    return rs", 0),
 (I, "return np.pi / (2 * 9.81) * cumulative_trapezoid(acc ** 2, dx=dt, initial=0)", "return np.pi / (2 * 9.8) * cumulative_trapezoid(acc ** 2, dx=dt, initial=0)", 0),
 (I, "return np.pi / (2 * 9.81) * cumulative_trapezoid(acc ** 2, dx=dt, initial=0)", "return np.pi / (2 * 9.81) * cumulative_trapezoid(acc ** 2, dx=dt)", 0),
 (I, "periods = np.logspace(-1, 0.3, 100)", "periods = np.logspace(-1, 0.3, 50)", 0),
 (I, "periods = np.logspace(-1, 1, 100)", "periods = np.logspace(-2, 1, 100)", 0),
 (I, "xi=0.15)", "xi=0.05)", 0),
 (I, "max_index = np.argmax(new_sig.s_v)", "max_index = np.argmax(new_sig.s_a)", 0),
 (I, "max_index = np.argmax(new_sig.s_a)", "max_index = np.argmin(new_sig.s_a)", 0),
 (I, "new_sig = AccSignal(asig.values, asig.dt)", "new_sig = AccSignal(asig.values, asig.dt * 2)", 0),
 (I, "new_sig.generate_response_spectrum(response_times=periods, xi=0)", "new_sig.generate_response_spectrum(response_times=periods, xi=0, min_dt_ratio=1)", 0),
 (I, "calc_significant_duration(acc_sig.values, acc_sig.dt)", "calc_significant_duration(acc_sig.values, acc_sig.dt, 0.05, 0.75)", 0),
 (I, "def calc_sig_dur_vals(motion, dt, start=0.05, end=0.95, se=False):", "def calc_sig_dur_vals(motion, dt, start=0.05, end=0.95, se=True):", 0),
 (I, "def calc_significant_duration(motion, dt, start=0.05, end=0.95):", "def calc_significant_duration(motion, dt, start=0.05, end=0.75):", 0),
 (S, "w_d = w_n * np.sqrt(1 - xi ** 2)", "w_d = w_n * np.sqrt(1 + xi ** 2)", 0),
 (S, "p = motion * step / w_d", "p = motion * step / w_n", 0),
 (S, "    for i in range(length):", "    for i in range(length - 1):", 0),
 (S, "dtn = time[:-i - 1]", "dtn = time[:-i - 2]", 0),
 (S, "np.sin(w_d * dtn)", "np.cos(w_d * dtn)", 0),
 (S, "np.exp(-x_w_n * dtn)", "np.exp(x_w_n * dtn)", 0),
 (S, "disp[i:] += d_new", "disp[i:] -= d_new", 0),
 (S, "time = step * np.arange(length + 1)", "time = step * np.arange(length + 2)", 0),
 (S, "disp[i:] += d_new", "disp[i + 1:] += d_new", 0),
 (S, "d_new = p[i] *", "d_new = p[0] *", 0),
 (S, "w_n = (2.0 * np.pi) / period", "w_n = (4.0 * np.pi) / period", 0),
 (S, "x_w_n = xi * w_n", "x_w_n = xi * w_d", 0),
 (S, "    xi = xis[0]", "    xi = xis[1]", 0),
 (S, "s_v = s_d * 2 * np.pi / periods", "s_v = s_d * np.pi / periods", 0),
 (S, "s_a = s_d * (2 * np.pi / periods) ** 2", "s_a = s_d * (2 * np.pi / periods)", 0),
 (S, "max(abs(single_elastic_response(motion, step, periods[i], xi)))", "max(single_elastic_response(motion, step, periods[i], xi))", 0),
 (S, "single_elastic_response(motion, step, periods[i], xi)))", "single_elastic_response(motion, step, periods[0], xi)))", 0),
 (S, "    return s_d, s_v, s_a", "    return s_d, s_a, s_v", 0),
 (S, "    for i in range(points):", "    for i in range(points - 1):", 0),
]
HARMLESS = [
 (S, "kin_energy", "ke", 'all'),
 (S, "    delta_energy = np.diff(kin_energy)\n    # double for strain then half since only positive increasing\n    cum_delta_energy = np.sum(abs(delta_energy), axis=1)", "    cum_delta_energy = np.sum(abs(np.diff(kin_energy)), axis=1)", 0),
 (S, "kin_energy = 0.5 * resp_v ** 2 * mass", "kin_energy = .5 * resp_v ** 2 * mass", 0),
 (S, "kin_energy = 0.5 * resp_v ** 2 * mass", "kin_energy = mass * 0.5 * resp_v ** 2", 0),
 (S, "        xi = 0.05\n    resp_u, resp_v, resp_a = response_series(acc_signal.values, acc_signal.dt, periods, xi)\n    mass", "        xi = 0.050\n    resp_u, resp_v, resp_a = response_series(acc_signal.values, acc_signal.dt, periods, xi)\n    mass", 0),
 (S, "    if series:\n        return np.cumsum(acc_signal.values * resp_v * acc_signal.dt, axis=1)\n    else:\n        return np.sum(acc_signal.values * resp_v * acc_signal.dt, axis=1)", "    power = acc_signal.values * resp_v * acc_signal.dt\n    if series:\n        return np.cumsum(power, axis=1)\n    else:\n        return np.sum(power, axis=1)", 0),
 (S, "    resp_u, resp_v, resp_a = response_series(acc_signal.values, acc_signal.dt, periods, xi)\n    mass = 1\n", "    mass = 1\n    resp_u, resp_v, resp_a = response_series(acc_signal.values, acc_signal.dt, periods, xi)\n", 0),
 (S, "    resp_u, resp_v, resp_a = response_series(acc_signal.values, acc_signal.dt, periods, xi)\n    mass", "    ru, rv, ra = response_series(acc_signal.values, acc_signal.dt, periods, xi)\n    resp_v = rv\n    mass", 0),
 (S, "return np.sum(acc_signal.values * resp_v * acc_signal.dt, axis=1)", "return np.sum(resp_v * acc_signal.values * acc_signal.dt, axis=1)", 0),
 (G, "min_non_zero_period", "mnz", 'all'),
 (G, "values_interp", "vi_", 'all'),
 (G, "min_non_zero_period / 20", "min_non_zero_period / 20.0", 0),
 (G, "            values_interp = self.values\n            dt_interp = self.dt\n", "            dt_interp = self.dt\n            values_interp = self.values\n", 0),
 (G, "        if self.verbose:\n            print('Generating response spectra')\n", "", 0),
 (G, "if xi == -1:", "if xi == -1.0:", 0),
 (G, "        try:\n            self._s_d, self._s_v, self._s_a = dh.pseudo_response_spectra(values_interp, dt_interp, self.response_times, xi)\n        except MemoryError:\n            raise MemoryError('Out of memory. Length of acc (%i) and length of response_times (%i) too large, '\n                              'set larger min_dt_ratio.' % (len(values_interp), len(self.response_times)))\n", "        self._s_d, self._s_v, self._s_a = dh.pseudo_response_spectra(values_interp, dt_interp, self.response_times, xi)\n", 0),
 (G, "target_dt = max(min_non_zero_period / 20, self.dt / min_dt_ratio)", "a_ = min_non_zero_period / 20\n        target_dt = max(a_, self.dt / min_dt_ratio)", 0),
 (G, "if target_dt < self.dt:", "if self.dt > target_dt:", 0),
 (I, "return max(0.01*cumulative_trapezoid(abs(psa)))/9.81", "return max(cumulative_trapezoid(abs(psa))*0.01)/9.81", 0),
 (I, "    sds, psv, psa = sdof.pseudo_response_spectra(asig.values, asig.dt, periods, xi=xi)\n    return max(0.01*cumulative_trapezoid(abs(psa)))", "    sds, psv, pa_ = sdof.pseudo_response_spectra(asig.values, asig.dt, periods, xi=xi)\n    return max(0.01*cumulative_trapezoid(abs(pa_)))", 0),
 (I, "return max(0.01*cumulative_trapezoid(abs(psv)))  # in m", "return max(0.02*cumulative_trapezoid(abs(psv)))  # in m", 0),
 (I, "np.arange(0.1, 1.51, 0.01)", "np.arange(.1, 1.51, .01)", 0),
 (I, "    c = np.trapz(abs(psv), axis=0)\n", "", 0),
 (I, "    sds, psv, psa = sdof.pseudo_response_spectra(asig.values, asig.dt, periods, xi=xi)\n    return max(0.01*cumulative_trapezoid(abs(psa)))", "    sds, psv, psa = sdof.pseudo_response_spectra(asig.values, asig.dt, periods, xi)\n    return max(0.01*cumulative_trapezoid(abs(psa)))", 0),
 (I, "        rs = _raw_calc_arias_intensity(resp_a, acc_signal.dt)\n    else:\n        raise ValueError\n    return rs", "        out_ = _raw_calc_arias_intensity(resp_a, acc_signal.dt)\n    else:\n        raise ValueError\n    return out_", 0),
 (I, "new_sig", "s_", 'all'),
 (I, "return 0.7 * ai_total / (t75 - t5)", "return 0.5 * ai_total / (t75 - t5)", 0),
 (I, "    psv = w[:, np.newaxis] * sds_time\n", "    psv = sds_time * w[:, np.newaxis]\n", 0),
 (S, "d_new", "dn_", 'all'),
 (S, "    x_w_n = xi * w_n\n", "    x_w_n = xi * w_n\n    unused_ = 3\n", 0),
 (S, "w_n = (2.0 * np.pi) / period", "w_n = (2 * np.pi) / period", 0),
 (S, "    points = len(periods)\n    xi = xis[0]\n", "    xi = xis[0]\n    points = len(periods)\n", 0),
 (S, "np.exp(-x_w_n * dtn)", "np.exp(-(xi * w_n) * dtn)", 0),
 (S, "s_a = s_d * (2 * np.pi / periods) ** 2", "w_ = 2 * np.pi / periods\n    s_a = s_d * w_ ** 2", 0),
 (S, "s_v = s_d * 2 * np.pi / periods", "s_v = 2 * s_d * np.pi / periods", 0),
]

def run(cmd, **k):
    return subprocess.run(cmd, capture_output=True, text=True, **k)

def translate(repo):
    r = run(['python3', ROOT + '/tools/py2lean.py', '--repo', repo, '--out', GEN])
    out = json.loads(r.stdout.strip().splitlines()[-1])
    return out

def read_mine():
    return {f: open(os.path.join(GEN, f)).read() for f in MINE}

def main(which):
    edits = BREAK if which == 'break' else HARMLESS
    translate('/repo')
    base = read_mine()
    res = []
    for n, (f, old, new, occ) in enumerate(edits):
        shutil.rmtree(SRC, ignore_errors=True)
        shutil.copytree('/repo/eqsig', SRC + '/eqsig')
        p = SRC + '/eqsig/' + f
        s = open(p).read()
        assert old in s, (n, old)
        if occ == 'all':
            s2 = s.replace(old, new)
        elif occ == -1:
            k = s.rindex(old)
            s2 = s[:k] + new + s[k + len(old):]
        else:
            s2 = s.replace(old, new, 1)
        open(p, 'w').write(s2)
        try:
            compile(s2, p, 'exec')
        except SyntaxError as e:
            res.append((n, f, 'SYNTAX', str(e))); continue
        out = translate(SRC)
        us = [u for u in out['untranslatable'] if u['target'] in TG]
        if us:
            verdict, detail = 'Untranslatable', f"{us[0]['function']}:{us[0]['line']}: {us[0]['construct']}"[:110]
        else:
            cur = read_mine()
            changed = [k for k in MINE if cur[k] != base[k]]
            if not changed:
                verdict, detail = 'same-text', ''
            else:
                r = run(['lake', 'build', 'EqsigVerif.Props.C03GenSpec2', 'EqsigVerif.Props.C03GenSpec2b'], cwd=ROOT + '/lean')
                verdict = 'bridge-ok' if r.returncode == 0 else 'bridge-FAILS'
                detail = ','.join(changed)
        res.append((n, f, verdict, detail))
        print(n, f, verdict, detail, '|', old.splitlines()[0][:50], '->', new.splitlines()[0][:50] if new else '(removed)', flush=True)
    translate('/repo')
    return res

if __name__ == '__main__':
    main(sys.argv[1])
