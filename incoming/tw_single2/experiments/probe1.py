import numpy as np, warnings
warnings.simplefilter('ignore')
import eqsig
from fractions import Fraction as F
def mk(v, dt): return eqsig.AccSignal(np.array(v, dtype=float), dt)
a = mk([1,1,1],1.0); a.rebase_displacement(); print('rebase', a.values, a.displacement)
a = mk([0,1,0,0,2,1,0,0],0.5); print(a.velocity); a.set_zero_residual_velocity(); print('szrv', a.values, a.velocity)
a = mk([0,1,0,0,2,1,0,0],0.5); a.set_zero_residual_velocity(timezone=(1.0, 3.0)); print('szrv tz', a.values, a.velocity)
a = mk([0,1,0,0,2,1,0,0],0.5); a.set_zero_residual_velocity(timezone=(1.0, None)); print('szrv tz none', a.values, a.velocity)
a = mk([0,1,0,0,2,1,0,0],0.5); a.set_zero_residual_displacement(); print('szrd', a.values, a.displacement)
a = mk([0,1,0,0,2,1,0,0],0.5); a.set_zero_residual_displacement_and_velocity(); print('szrdv', a.values, a.velocity, a.displacement)
a = mk([0,1,0,0,2,1,0,0],0.5); a.set_zero_residual_displacement_and_velocity(timezone=(1.0,3.0)); print('szrdv tz', a.values, a.velocity, a.displacement)
a = mk([0,1,0,0,2,1,0,0],0.5); a.set_zero_residual_displacement_and_velocity(timezone=(1.0,None)); print('szrdv tz none', a.values, a.velocity, a.displacement)
for v,dt in [([],0.5),([1.0],0.5),([0,0,0],0.5),([1,2],0.0)]:
    for m,kw in [('rebase_displacement',{}),('set_zero_residual_velocity',{}),('set_zero_residual_displacement',{}),('set_zero_residual_displacement_and_velocity',{}),('correct_me',{}),('set_zero_residual_displacement',{'timezone':(0,1)})]:
        try:
            a = mk(v,dt); getattr(a,m)(**kw); print(m, v, dt, kw, '->', a.values)
        except Exception as e: print(m, v, dt, kw, 'EXC', type(e).__name__, e)
# int dtype
try:
    a = eqsig.AccSignal(np.array([1,2,3]),0.5); a.rebase_displacement(); print(a.values)
except Exception as e: print('int dtype', type(e).__name__, type(e).__mro__)
