import EqsigVerif.Audit
import EqsigVerif.Props.C08GenResidual
import EqsigVerif.Props.C17GenRolling
#audit EqsigVerif.Props.C08
#audit EqsigVerif.Props.C17
