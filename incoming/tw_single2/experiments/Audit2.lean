import EqsigVerif.Audit
import EqsigVerif.Props.C08Residual
import EqsigVerif.Props.C17Rolling
#audit EqsigVerif.Props.C08
#audit EqsigVerif.Props.C17
