"""experiments for tools/py2lean_x_single2.py: one edit at a time on a copy of eqsig/single.py; U = Untranslatable, F = bridge build fails,
S = survives (bridge builds; byte-identical or not), SLIP = a breaking edit that is neither U nor F"""
import os, shutil, subprocess, sys, json
sys.path.insert(0, '/tmp/tw_single2/verif/tools')
import py2lean_x_single2 as P
SRC = '/tmp/tw_single2/src'
LEAN = '/tmp/tw_single2/verif/lean'
GEN = LEAN + '/EqsigVerif/Gen/Single2.lean'
orig = open('/repo/eqsig/single.py').read()
golden = P.gen_single2('/repo', 'Gen')['Single2.lean']

BREAK = [
 ('B1 constant 2->3', 'acceleration_correction = 2 * end_disp', 'acceleration_correction = 3 * end_disp'),
 ('B2 index -1->0', 'end_disp = self.displacement[-1]', 'end_disp = self.displacement[0]'),
 ('B3 operator * -> +', '(self.dt * self.npts)', '(self.dt + self.npts)'),
 ('B4 constant 100->10', 'self.pga * self.dt / 100', 'self.pga * self.dt / 10'),
 ('B5 +1 -> +2', '(self.pga * self.dt / 100)) + 1', '(self.pga * self.dt / 100)) + 2'),
 ('B6 sign of si', 'si = -nsteps', 'si = nsteps'),
 ('B7 swapped difference', 'nsteps = ei - si', 'nsteps = si - ei'),
 ('B8 - -> +', 'nsteps = len(self.values) - si', 'nsteps = len(self.values) + si'),
 ('B9 / -> *', 'delta_acc = post_vel / self.dt / nsteps', 'delta_acc = post_vel * self.dt / nsteps'),
 ('B10 wrong series', 'post_vel = self.velocity[-1]', 'post_vel = self.displacement[-1]'),
 ('B11 exponent', 'delta_acc = post_disp * 2 / ttime ** 2', 'delta_acc = post_disp * 2 / ttime ** 3'),
 ('B12 exception class', "raise ValueError('Not supported')", "raise IndexError('Not supported')"),
 ('B13 sign in b', 'b = (-2*pdisp + pvel*ttime)/ttime**3', 'b = (-2*pdisp - pvel*ttime)/ttime**3'),
 ('B14 sign in a', 'a = (pdisp - b * ttime ** 3) / ttime ** 2', 'a = (pdisp + b * ttime ** 3) / ttime ** 2'),
 ('B15 constant 6->3', 'delta_acc = 2 * a + 6 * b * tincs', 'delta_acc = 2 * a + 3 * b * tincs'),
 ('B16 pvel = 1', 'pvel = 0  # if using', 'pvel = 1  # if using'),
 ('B17 swapped ttime', 'should be zero\n                ttime = timezone[1] - timezone[0]', 'should be zero\n                ttime = timezone[0] - timezone[1]'),
 ('B18 slice side', 'tincs = self.time[:ei]', 'tincs = self.time[ei:]'),
 ('B19 index 0->-1', 'tincs -= tincs[0]', 'tincs -= tincs[-1]'),
 ('B20 - -> +', 'ttime = self.time[-1] - timezone[0]', 'ttime = self.time[-1] + timezone[0]'),
 ('B21 dropped sign', 'vel[i + 1] = (disp[i + 1] - disp[i]) / self.dt', 'vel[i + 1] = (disp[i + 1] + disp[i]) / self.dt'),
 ('B22 loop bound', 'for i in range(self.npts - 1):  # MEANS', 'for i in range(self.npts - 2):  # MEANS'),
 ('B23 mean window', 'acc[:10] = np.mean(acc[:10])', 'acc[:10] = np.mean(acc[:9])'),
 ('B24 index i+1 -> i', '            acc[i + 1] = (vel[i + 1] - vel[i]) / self.dt', '            acc[i] = (vel[i + 1] - vel[i]) / self.dt'),
 ('B25 constant 1.->2.', 'width = int(1. / (freq_window * self.dt))', 'width = int(2. / (freq_window * self.dt))'),
 ('B26 guard 1->2', 'if width < 1:', 'if width < 2:'),
 ('B27 slice side in loop', 'roll[i] = np.mean(mot[cc:])', 'roll[i] = np.mean(mot[:cc])'),
 ('B28 +1 -> +2 in loop', 'cc = i + int(width / 2) + 1\n                roll[i]', 'cc = i + int(width / 2) + 2\n                roll[i]'),
 ('B29 index 0->-1', 'acc = np.insert(acc, 0, velocity[0] / self.dt)', 'acc = np.insert(acc, 0, velocity[-1] / self.dt)'),
 ('B30 - -> +', 'velocity = self.velocity - roll', 'velocity = self.velocity + roll'),
 ('B31 -= -> +=', 'self._values -= roll', 'self._values += roll'),
 ('B32 string literal', 'if mtype == "velocity":\n            mot = self.velocity', 'if mtype == "velo":\n            mot = self.velocity'),
 ('B33 swapped slice bounds', 'delta_acc = post_vel / self.dt / nsteps\n        vals = self.values\n        vals[si:ei] -= delta_acc', 'delta_acc = post_vel / self.dt / nsteps\n        vals = self.values\n        vals[ei:si] -= delta_acc'),
 ('B34 comparison < -> <= in loop', 'if i < width / 2:\n                cc = i + int(width / 2) + 1\n                roll[i]', 'if i <= width / 2:\n                cc = i + int(width / 2) + 1\n                roll[i]'),
 ('B35 loop reads the buffer', 'roll[i] = np.mean(mot[cc1:cc2])', 'roll[i] = np.mean(roll[cc1:cc2])'),
 ('B36 dropped term', 'delta_acc = 2 * a + 6 * b * tincs', 'delta_acc = 6 * b * tincs'),
 ('B37 default of freq_window', 'def remove_rolling_average(self, mtype="velocity", freq_window=5)', 'def remove_rolling_average(self, mtype="velocity", freq_window=4)'),
 ('B38 npts -> npts - 1', '(self.dt * self.npts)', '(self.dt * (self.npts - 1))'),
]
HARMLESS_ALL = [
 ('H1 rename temporary', [('end_disp', 'ed')]),
 ('H2 rename temporary', [('acceleration_correction', 'corr')]),
 ('H3 commuted product', [('acceleration_correction = 2 * end_disp', 'acceleration_correction = end_disp * 2')]),
 ('H4 introduce temporary', [('nsteps = int(abs(post_vel) / (self.pga * self.dt / 100)) + 1', 'den = self.pga * self.dt / 100\n            nsteps = int(abs(post_vel) / den) + 1')]),
 ('H5 reorder independent reads', [('pdisp = self.displacement[-1]\n        pvel = self.velocity[-1]', 'pvel = self.velocity[-1]\n        pdisp = self.displacement[-1]')]),
 ('H6 literal 1. -> 1.0', [('width = int(1. / (freq_window', 'width = int(1.0 / (freq_window')]),
 ('H7 x ** 2 -> x * x', [('delta_acc = post_disp * 2 / ttime ** 2', 'delta_acc = post_disp * 2 / (ttime * ttime)')]),
 ('H8 rename loop variable', [('for i in range(len(mot)):\n            if i < width / 2:\n                cc = i + int(width / 2) + 1\n                roll[i] = np.mean(mot[:cc])\n            elif i > len(mot) - width / 2:\n                cc = i - int(width / 2)\n                roll[i] = np.mean(mot[cc:])\n            else:\n                cc1 = i - int(width / 2)\n                cc2 = i + int(width / 2) + 1\n                roll[i] = np.mean(mot[cc1:cc2])',
   'for k in range(len(mot)):\n            if k < width / 2:\n                cc = k + int(width / 2) + 1\n                roll[k] = np.mean(mot[:cc])\n            elif k > len(mot) - width / 2:\n                cc = k - int(width / 2)\n                roll[k] = np.mean(mot[cc:])\n            else:\n                cc1 = k - int(width / 2)\n                cc2 = k + int(width / 2) + 1\n                roll[k] = np.mean(mot[cc1:cc2])')]),
 ('H9 rename alias of the record', [('delta_acc = post_vel / self.dt / nsteps\n        vals = self.values\n        vals[si:ei] -= delta_acc\n        self.reset_values(vals)', 'delta_acc = post_vel / self.dt / nsteps\n        rec = self.values\n        rec[si:ei] -= delta_acc\n        self.reset_values(rec)')]),
 ('H10 reorder independent statements', [('si = -nsteps\n            ei = None', 'ei = None\n            si = -nsteps')]),
 ('H11 abs -> np.abs', [('int(abs(post_vel)', 'int(np.abs(post_vel)')]),
 ('H12 remove temporary', [('acceleration_correction = 2 * end_disp / (self.dt * self.npts)\n        self._values -= acceleration_correction', 'self._values -= 2 * end_disp / (self.dt * self.npts)')]),
 ('H13 len(self.values) -> self.npts', [('nsteps = len(self.values) - si', 'nsteps = self.npts - si')]),
 ('H14 rename roll buffer', [('roll = np.zeros_like(mot)', 'rbuf = np.zeros_like(mot)'), ('roll[i] = np.mean(mot[:cc])', 'rbuf[i] = np.mean(mot[:cc])'), ('roll[i] = np.mean(mot[cc:])', 'rbuf[i] = np.mean(mot[cc:])'), ('roll[i] = np.mean(mot[cc1:cc2])', 'rbuf[i] = np.mean(mot[cc1:cc2])'), ('velocity = self.velocity - roll', 'velocity = self.velocity - rbuf'), ('self._values -= roll', 'self._values -= rbuf')]),
 ('H17 else-branch spelled elif', [('            else:\n                cc1 = i - int(width / 2)\n                cc2 = i + int(width / 2) + 1\n                roll[i]', '            else:\n                cc2 = i + int(width / 2) + 1\n                cc1 = i - int(width / 2)\n                roll[i]')]),
 ('H18 nsteps temporary removed', [('delta_acc = post_vel / self.dt / nsteps\n        vals = self.values\n        vals[si:ei] -= delta_acc', 'vals = self.values\n        vals[si:ei] -= post_vel / self.dt / nsteps')]),
 ('H15 message of the exception', [('raise ValueError("freq_window to high")', 'raise ValueError("freq_window too high")')]),
 ('H16 literal 100 -> 100.0', [('self.pga * self.dt / 100)', 'self.pga * self.dt / 100.0)')]),
]

HARMLESS = [h for h in HARMLESS_ALL if h[0].split()[0] in ('H11', 'H14', 'H17', 'H18')]

def build():
    p = subprocess.run(['lake', 'build', 'EqsigVerif.Props.C08GenResidual', 'EqsigVerif.Props.C17GenRolling'], cwd=LEAN, capture_output=True, text=True)
    return p.returncode == 0

def run(label, repls):
    s = orig
    for old, new in repls:
        if old not in s:
            return label, 'EDIT-NOT-APPLICABLE'
        s = s.replace(old, new) if len(repls) == 1 and label.startswith('H1 ') or label.startswith('H2 ') or label.startswith('H14') else s.replace(old, new, 1)
    shutil.rmtree(SRC, ignore_errors=True)
    shutil.copytree('/repo/eqsig', SRC + '/eqsig')
    open(SRC + '/eqsig/single.py', 'w').write(s)
    try:
        text = P.gen_single2(SRC, 'Gen')['Single2.lean']
    except Exception as e:
        if type(e).__name__ == 'Untranslatable':
            return label, f"U ({e.function}:{e.line}: {e.construct[:70]})"
        return label, f"CRASH {type(e).__name__}: {e}"
    if text == golden:
        return label, 'S byte-identical'
    open(GEN, 'w').write(text)
    ok = build()
    return label, ('S different text, bridges build' if ok else 'F bridge build fails')

out = []
which = sys.argv[1] if len(sys.argv) > 1 else 'all'
if which in ('all', 'break'):
    for lab, old, new in BREAK:
        r = run(lab, [(old, new)])
        print(r, flush=True); out.append(r)
if which in ('all', 'harmless'):
    for lab, repls in HARMLESS:
        r = run(lab, repls)
        print(r, flush=True); out.append(r)
open(GEN, 'w').write(golden)
print('restored', build())
json.dump(out, open('/tmp/tw_single2/exp/results_%s.json' % which, 'w'), indent=1)
