"""standalone validation of Model/Single2.lean against /repo: python validate.py [seed] [n_cases]"""
import sys, os
sys.path.insert(0, '/tmp/tw_single2/verif/harness')
sys.path.insert(0, '/tmp/tw_single2/verif/harness/props')
import core
from _single2_corr import corr_single2
seed = int(sys.argv[1]) if len(sys.argv) > 1 else 0
n = int(sys.argv[2]) if len(sys.argv) > 2 else 60
ctx = core.Ctx('C08', 'quick', seed)
corr_single2(ctx, n)
print('requests per fn:', ctx.corr_count)
print('failures:', len(ctx.corr_failures))
for f in ctx.corr_failures[:25]:
    print(f['fn'], f['message'], f['inputs'], f['request'][:200])
print('gaps', ctx.max_gap)
print({k: v for k, v in ctx.dist.items() if 'single2' in k})
# outcome statistics
