import EqsigVerif.Model.Single2
import EqsigVerif.Gen.Single2
import EqsigVerif.Lemmas.Single2
import EqsigVerif.Props.C08Residual
/-!
# C08 — translator tie: the residual-removing mutators of `AccSignal` REGENERATED from `eqsig/single.py`

`Gen/Single2.lean` is regenerated on every run by `tools/py2lean_x_single2.py`.  Bridges: generated = hand model (`Model/Single2.lean`)
for ALL arguments (every `timezone` shape, error branches included); consequences: the theorems of `Props/C08Residual.lean` stated
about the generated code.
-/
set_option linter.unusedSectionVars false
set_option linter.unusedVariables false
namespace EqsigVerif.Props.C08
open EqsigVerif EqsigVerif.Wire EqsigVerif.NpS EqsigVerif.Model.Im EqsigVerif.Model.Single2

/-- **bridge** `AccSignal.rebase_displacement()`: generated = model, all records and `dt` -/
theorem gen_rebaseDisplacement (values : List ℚ) (dt : ℚ) :
    Gen.Single2.rebaseDisplacement values dt = rebaseDisplacement values dt := rfl

/-- **bridge** `AccSignal.set_zero_residual_velocity(timezone)`: generated = model, all arguments -/
theorem gen_setZeroResidualVelocity (values : List ℚ) (dt : ℚ) (tz : Timezone) :
    Gen.Single2.setZeroResidualVelocity values dt tz = setZeroResidualVelocity values dt tz := by
  rcases tz with _ | ⟨t0, _ | t1⟩ <;> rfl

/-- **bridge** `AccSignal.set_zero_residual_displacement(timezone)`: generated = model, all arguments -/
theorem gen_setZeroResidualDisplacement (values : List ℚ) (dt : ℚ) (tz : Timezone) :
    Gen.Single2.setZeroResidualDisplacement values dt tz = setZeroResidualDisplacement values dt tz := by
  rcases tz with _ | ⟨t0, _ | t1⟩ <;> rfl

/-- **bridge** `AccSignal.set_zero_residual_displacement_and_velocity(timezone)`: generated = model, all arguments -/
theorem gen_setZeroResidualDisplacementAndVelocity (values : List ℚ) (dt : ℚ) (tz : Timezone) :
    Gen.Single2.setZeroResidualDisplacementAndVelocity values dt tz = setZeroResidualDisplacementAndVelocity values dt tz := by
  rcases tz with _ | ⟨t0, _ | t1⟩ <;> rfl

/-- **bridge** `AccSignal.correct_me()`: generated = model, every `detrend`, record and `dt` -/
theorem gen_correctMe (detrend : List ℚ → List ℚ) (values : List ℚ) (dt : ℚ) :
    Gen.Single2.correctMe detrend values dt = correctMe detrend values dt := rfl

/-- **consequence** (`rebase_final` about the generated code): the final displacement after the generated `rebase_displacement` is
`D·(1 − (n−1)²·dt/n)` -/
theorem gen_rebase_final (values : List ℚ) (dt : ℚ) (hne : values ≠ []) (hdt : dt ≠ 0) :
    ∃ D new, (displacement dt values).getLast? = some D ∧ Gen.Single2.rebaseDisplacement values dt = .ok new ∧
      (displacement dt new).getLast? = some (D * (1 - ((values.length - 1 : ℕ) : ℚ) ^ 2 * dt / (values.length : ℚ))) := by
  obtain ⟨V, D, new, _, hD, hn, _, hf, _⟩ := rebase_final values dt hne hdt
  exact ⟨D, new, hD, by rw [gen_rebaseDisplacement]; exact hn, hf⟩

/-- **consequence** (`zero_disp_spec`): the generated `set_zero_residual_displacement()` zeroes the final displacement exactly -/
theorem gen_zero_disp_final (values : List ℚ) (dt : ℚ) (hn : 2 ≤ values.length) (hdt : dt ≠ 0) :
    ∃ new, Gen.Single2.setZeroResidualDisplacement values dt none = .ok new ∧ new.length = values.length ∧
      (displacement dt new).getLast? = some 0 := by
  obtain ⟨V, D, new, _, _, h1, _, h3, h4, _⟩ := zero_disp_spec values dt hn hdt
  exact ⟨new, by rw [gen_setZeroResidualDisplacement]; exact h1, h3, h4⟩

/-- **consequence** (`zero_disp_vel_spec`): the generated `set_zero_residual_displacement_and_velocity()` zeroes the final velocity -/
theorem gen_zero_disp_vel_final (values : List ℚ) (dt : ℚ) (hn : 2 ≤ values.length) (hdt : dt ≠ 0) :
    ∃ new, Gen.Single2.setZeroResidualDisplacementAndVelocity values dt none = .ok new ∧ new.length = values.length ∧
      (velocity dt new).getLast? = some 0 := by
  obtain ⟨V, D, new, _, _, h1, h2, _, h4, _⟩ := zero_disp_vel_spec values dt hn hdt
  exact ⟨new, by rw [gen_setZeroResidualDisplacementAndVelocity]; exact h1, h2, h4⟩

/-- **consequence** (`zero_vel_interior`): the generated `set_zero_residual_velocity((t0, t1))` with an interior window zeroes the
final velocity exactly -/
theorem gen_zero_vel_interior (values : List ℚ) (dt t0 t1 : ℚ) (hdt : dt ≠ 0) (si ei : ℕ)
    (hsi : truncZ (t0 / dt) = (si : ℤ)) (hei : truncZ (t1 / dt) = (ei : ℤ)) (h1 : 1 ≤ si) (h2 : si < ei) (h3 : ei + 1 ≤ values.length) :
    ∃ new, Gen.Single2.setZeroResidualVelocity values dt (some (t0, some t1)) = .ok new ∧ (velocity dt new).getLast? = some 0 := by
  obtain ⟨new, hn, _, hf⟩ := zero_vel_interior values dt t0 t1 hdt si ei hsi hei h1 h2 h3
  exact ⟨new, by rw [gen_setZeroResidualVelocity]; exact hn, hf⟩

example : Gen.Single2.rebaseDisplacement [1, 1, 1] 1 = .ok [-1/3, -1/3, -1/3] := by decide +kernel
example : Gen.Single2.setZeroResidualVelocity [0, 1, 0, 0, 2, 1, 0, 0] (1/2) (some (1, some 3)) = .ok [0, 1, -1, -1, 1, 0, 0, 0] := by
  decide +kernel
example : Gen.Single2.setZeroResidualDisplacement [0, 1, 0, 0, 2, 1, 0, 0] (1/2) none
    = .ok [-4/7, 3/7, -4/7, -4/7, 10/7, 3/7, -4/7, -4/7] := by decide +kernel
example : Gen.Single2.setZeroResidualDisplacementAndVelocity [1, 2, 4] (1/2) none = .ok [-1/8, -1/4, 5/8] := by decide +kernel
example : Gen.Single2.correctMe id [1, 2, 4] (1/2) = .ok [1, 1, 1] := by decide +kernel

end EqsigVerif.Props.C08
