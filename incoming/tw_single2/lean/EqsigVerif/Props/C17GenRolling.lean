import EqsigVerif.Model.Single2
import EqsigVerif.Gen.Single2
import EqsigVerif.Gen.Mutators2
import EqsigVerif.Lemmas.Single2
import EqsigVerif.Props.C17Gen2
import EqsigVerif.Props.C17Rolling
/-!
# C17 — translator tie: `AccSignal.remove_rolling_average` REGENERATED from `eqsig/single.py`

`Gen/Single2.lean` (`rollAt`, `removeRollingAverage`) is regenerated on every run by `tools/py2lean_x_single2.py`.  Bridges: the loop
sample `rollAt` = `Model.Single.runningAverageAt` (the same window rule as `Signal.running_average`), the whole method = the hand model
for all arguments, errors included; consequence: `remove_rolling_average_spec` about the generated code.
-/
set_option linter.unusedSectionVars false
set_option linter.unusedVariables false
set_option linter.unusedSimpArgs false
namespace EqsigVerif.Props.C17
open EqsigVerif EqsigVerif.Wire EqsigVerif.NpS EqsigVerif.Model.Single EqsigVerif.Model.Single2

/-- the generated loop sample of `remove_rolling_average` is, as text, the generated loop sample of `Signal.running_average` -/
theorem gen_rollAt_eq_runningAverageAt (mot : List ℚ) (w i : ℕ) :
    Gen.Single2.rollAt mot w i = Gen.Mutators2.runningAverageAt mot w i := rfl

/-- **bridge** the sample `roll[i]`: generated = `Model.Single.runningAverageAt` (all arguments) -/
theorem gen_rollAt (mot : List ℚ) (w : ℕ) : Gen.Single2.rollAt mot w = runningAverageAt mot w := by
  funext i
  rw [gen_rollAt_eq_runningAverageAt, gen_runningAverageAt]

/-- **bridge** `AccSignal.remove_rolling_average(mtype, freq_window)`: generated = model for all arguments, errors included -/
theorem gen_removeRollingAverage (values : List ℚ) (dt : ℚ) (mt : MType) (fw : ℚ) :
    Gen.Single2.removeRollingAverage values dt (decide (mt = .velocity)) fw = removeRollingAverage values dt mt fw := by
  cases mt
  · simp only [Gen.Single2.removeRollingAverage, removeRollingAverage, rollWidthE, bind, Except.bind, rollOf, gen_rollAt, decide_true]
    cases hv : veloDispE values dt with
    | error e => rfl
    | ok vd =>
      simp only []
      cases hq : intPyDivE 1 (fw * dt) with
      | error e => rfl
      | ok w =>
        by_cases hw : w < 1 <;> simp [NpR.guardE, hw, pure, Except.pure]
  · simp only [Gen.Single2.removeRollingAverage, removeRollingAverage, rollWidthE, bind, Except.bind, rollOf, gen_rollAt]
    cases hq : intPyDivE 1 (fw * dt) with
    | error e => rfl
    | ok w =>
      by_cases hw : w < 1 <;> simp [NpR.guardE, hw, pure, Except.pure]

/-- the defaults read from the signature: `mtype="velocity"`, `freq_window=5` -/
theorem gen_removeRollingAverage_defaults : Gen.Single2.removeRollingAverageDefaults = (true, 5) := by decide +kernel

/-- **C17 for the generated code** (`remove_rolling_average_spec`): for an accepted window the generated method subtracts the window
mean of the ORIGINAL samples (separate buffer) -/
theorem gen_remove_rolling_average_spec (values : List ℚ) (dt fw : ℚ) (w : ℕ) (hw : rollWidthE fw dt = .ok w) :
    ∃ new, Gen.Single2.removeRollingAverage values dt false fw = .ok new ∧ new.length = values.length ∧
      ∀ i (hi : i < values.length), new[i]? = some (values[i] -
        (∑ j ∈ window values.length i (w / 2), values.getD j 0) / ((window values.length i (w / 2)).card : ℚ)) := by
  obtain ⟨new, h1, _, h3, h4⟩ := remove_rolling_average_spec values dt fw w hw
  refine ⟨new, ?_, h3, h4⟩
  have := gen_removeRollingAverage values dt .other fw
  simpa [h1] using this

example : Gen.Single2.removeRollingAverage [1, 2, 3, 4, 5] (1/16) true 5 = .ok [-3/4, 5/12, 0, 0, 31/12] := by decide +kernel
example : Gen.Single2.removeRollingAverage [1, 2, 3, 4, 5] (1/16) false 5 = .ok [-1/2, 0, 0, 0, 1/2] := by decide +kernel
example : Gen.Single2.removeRollingAverage [1, 2] (1/2) false 5 = .error .ValueError := by decide +kernel

end EqsigVerif.Props.C17
