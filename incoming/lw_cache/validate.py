#!/venv/bin/python
"""
Validation of Model/SignalSM.lean + GenGolden/CacheTable.lean against the real eqsig.AccSignal (C04 / C05).

usage:  cd <lean project> && PYTHONPATH=<eqsig tree> /venv/bin/python validate.py <variant> [--n 300] [--seed 1]
                                [--caller-writes] [--expect-all-fresh]

<variant> = the table corruption given to Scratch.lean (`golden`, `drop:<row>:<guard>;…`, `dropall:<guard>`, …);
the eqsig tree on PYTHONPATH must carry the *corresponding* source change (see run_validation.sh).

For every random history (≤ 6 operations drawn from the golden table's method rows, property reads, READALL and —
with --caller-writes — writes of the caller into arrays it passed earlier) and after every operation of it:
  * every quantity of the table is read on its own copy.deepcopy of the object and compared with a freshly
    constructed AccSignal with the same values/dt/smooth_fa_freqs/response_times
    (same shape and np.array_equal; np.allclose is reported separately);
  * the Lean model (lake env lean --run scratch/Scratch.lean) predicts for the same history which of these reads
    are fresh, and whether `_values` / `_response_times` / `_smooth_fa_freqs` are shared with a caller array;
  * C05: every array the caller passed is compared bit-for-bit with its content when passed (caller arrays must
    not be changed by object operations when the model says they are not shared).
"""
import sys, os, copy, warnings, subprocess, argparse, json
import numpy as np
warnings.simplefilter('ignore')
import eqsig

HERE = os.path.dirname(os.path.abspath(__file__))
DT = 0.01
N0 = 64

QUANTS = ['values', 'dt', 'npts', 'time', 'smooth_fa_freqs', 'smooth_fa_frequencies', 'smooth_freq_range',
          'smooth_freq_points', 'response_times', 'fa_spectrum', 'fa_spectrum_abs', 'fa_freqs', 'fa_frequencies',
          'smooth_fa_spectrum', 's_a', 's_v', 's_d', 'velocity', 'displacement', 'pga', 'pgv', 'pgd']


def rec(rng, n):
    return np.cumsum(rng.randn(n)) * 0.1 + rng.randn(n) * 0.05


def periods(rng):
    return np.sort(rng.uniform(0.15, 2.0, size=rng.randint(2, 5)))


def freqs(rng):
    return np.sort(rng.uniform(0.3, 20.0, size=rng.randint(3, 7)))


# each operation: f(sig, rng, newlen) -> the array object the caller passed (or None)
def _reset(s, rng, n):
    a = rec(rng, n if n else len(s.values)); s.reset_values(a); return a
def _add_constant(s, rng, n): s.add_constant(float(rng.uniform(0.1, 1.0))); return None
def _add_series(s, rng, n):
    a = rng.randn(len(s.values)) * 0.1; s.add_series(a); return a
def _add_signal(s, rng, n):
    a = rng.randn(len(s.values)) * 0.1; s.add_signal(eqsig.Signal(a, s.dt)); return a
def _butter(s, rng, n): s.butter_pass((float(rng.uniform(0.3, 1.0)), float(rng.uniform(8, 20)))); return None
def _rt_setter(s, rng, n):
    a = periods(rng); s.response_times = a; return a
def _gen_rs_given(s, rng, n):
    a = periods(rng); s.gen_response_spectrum(response_times=a); return a
def _generate_rs_given(s, rng, n):
    a = periods(rng); s.generate_response_spectrum(response_times=a); return a
def _resp_series_given(s, rng, n):
    a = periods(rng); s.response_series(response_times=a); return a
def _sff_setter(s, rng, n):
    a = freqs(rng); s.smooth_fa_freqs = a; return a
def _sffreq_setter(s, rng, n):
    a = freqs(rng); s.smooth_fa_frequencies = list(a); return None
def _gen_smooth_given(s, rng, n):
    a = freqs(rng); s.gen_smooth_fa_spectrum(smooth_fa_freqs=a); return a
def _by_range(s, rng, n):
    s.set_smooth_fa_frequecies_by_range((float(rng.uniform(0.1, 0.5)), float(rng.uniform(5, 20))), int(rng.randint(4, 9)))
def _sfr_setter(s, rng, n):
    s.smooth_freq_range = (float(rng.uniform(0.1, 0.5)), float(rng.uniform(5, 20)))
def _sfp_setter(s, rng, n):
    s.smooth_freq_points = int(len(s.smooth_fa_freqs) + rng.randint(1, 4))
def _values_setter(s, rng, n):
    a = rec(rng, 7); s.values = a; return a

METHODS = {
    'values=': _values_setter,
    'reset_values': _reset,
    'add_constant': _add_constant,
    'add_series': _add_series,
    'add_signal': _add_signal,
    'butter_pass': _butter,
    'remove_average': lambda s, r, n: s.remove_average(),
    'remove_poly': lambda s, r, n: s.remove_poly(int(r.randint(0, 3))),
    'running_average': lambda s, r, n: s.running_average(int(r.choice([3, 5]))),
    'remove_rolling_average/velocity': lambda s, r, n: s.remove_rolling_average(),
    'remove_rolling_average/other': lambda s, r, n: s.remove_rolling_average(mtype='acc'),
    'rebase_displacement': lambda s, r, n: s.rebase_displacement(),
    'set_zero_residual_velocity': lambda s, r, n: s.set_zero_residual_velocity(),
    'set_zero_residual_displacement': lambda s, r, n: s.set_zero_residual_displacement(),
    'set_zero_residual_displacement_and_velocity': lambda s, r, n: s.set_zero_residual_displacement_and_velocity(),
    'correct_me': lambda s, r, n: s.correct_me(),
    'smooth_fa_freqs=': _sff_setter,
    'smooth_fa_frequencies=': _sffreq_setter,
    'set_smooth_fa_frequecies_by_range': _by_range,
    'smooth_freq_range=': _sfr_setter,
    'smooth_freq_points=': _sfp_setter,
    'response_times=': _rt_setter,
    'gen_response_spectrum/given': _gen_rs_given,
    'gen_response_spectrum/omitted': lambda s, r, n: s.gen_response_spectrum(),
    'generate_response_spectrum/given': _generate_rs_given,
    'generate_response_spectrum/omitted': lambda s, r, n: s.generate_response_spectrum(),
    'response_series/given': _resp_series_given,
    'response_series/omitted': lambda s, r, n: (s.response_series(), None)[1],
    'gen_smooth_fa_spectrum/given': _gen_smooth_given,
    'gen_smooth_fa_spectrum/omitted': lambda s, r, n: s.gen_smooth_fa_spectrum(),
    'generate_smooth_fa_spectrum': lambda s, r, n: s.generate_smooth_fa_spectrum(),
    'gen_fa_spectrum': lambda s, r, n: s.gen_fa_spectrum(),
    'generate_fa_spectrum': lambda s, r, n: s.generate_fa_spectrum(),
    'generate_displacement_and_velocity_series': lambda s, r, n: s.generate_displacement_and_velocity_series(),
    'clear_cache': lambda s, r, n: s.clear_cache(),
    'reset_all_motion_stats': lambda s, r, n: s.reset_all_motion_stats(),
    'get_section_average': lambda s, r, n: (s.get_section_average(), None)[1],
    'generate_peak_values': lambda s, r, n: s.generate_peak_values(),
    'generate_cumulative_stats': lambda s, r, n: s.generate_cumulative_stats(),
    # generate_duration_stats / generate_all_motion_stats raise AttributeError (np.trapz) under numpy 2.5: not driven
}
# rows that end in reset_values (take a '#newLen' only for reset_values itself)
VALUE_MUTATORS = ['reset_values', 'add_constant', 'add_series', 'add_signal', 'butter_pass', 'remove_average',
                  'remove_poly', 'running_average', 'remove_rolling_average/velocity', 'remove_rolling_average/other',
                  'rebase_displacement', 'set_zero_residual_velocity', 'set_zero_residual_displacement',
                  'set_zero_residual_displacement_and_velocity', 'correct_me']


def fresh_of(s):
    return eqsig.AccSignal(np.array(s.values), s.dt, smooth_fa_freqs=np.array(s.smooth_fa_freqs, dtype=float),
                           response_times=np.array(s.response_times))


def same(a, b, exact=True):
    a = np.asarray(a); b = np.asarray(b)
    if a.shape != b.shape:
        return False
    if exact:
        return bool(np.array_equal(a, b))
    return bool(np.allclose(a, b, rtol=1e-9, atol=1e-12 * max(1.0, float(np.max(np.abs(b))) if b.size else 1.0)))


def shares(x, a):
    if a is None:
        return False
    if x is a:
        return True
    try:
        return bool(np.shares_memory(np.asarray(x) if not isinstance(x, np.ndarray) else x, a))
    except Exception:
        return False


def draw_history(rng, caller_writes):
    L = int(rng.randint(1, 7))
    ops = []
    ncalls = 1
    for _ in range(L):
        u = rng.rand()
        if u < 0.10:
            ops.append('READALL')
        elif u < 0.40:
            ops.append(str(rng.choice(QUANTS)))
        elif caller_writes and u < 0.52:
            ops.append('caller_write#%d' % int(rng.randint(1, ncalls + 1)))
        elif u < 0.75:
            m = str(rng.choice(VALUE_MUTATORS))
            if m == 'reset_values' and rng.rand() < 0.6:
                m += '#%d' % int(rng.choice([80, 96, 130]))
            ops.append(m); ncalls += 1
        else:
            ops.append(str(rng.choice(list(METHODS)))); ncalls += 1
    return ops


def observe(s):
    """freshness of every quantity, each read on its own deep copy, against a new object"""
    f = fresh_of(copy.deepcopy(s))
    ref = {q: getattr(f, q) for q in QUANTS}
    out = {}
    for q in QUANTS:
        c = copy.deepcopy(s)
        val = getattr(c, q)
        out[q] = (same(val, ref[q], True), same(val, ref[q], False))
    return out


def main():
    ap = argparse.ArgumentParser()
    ap.add_argument('variant')
    ap.add_argument('--n', type=int, default=300)
    ap.add_argument('--seed', type=int, default=1)
    ap.add_argument('--caller-writes', action='store_true')
    ap.add_argument('--expect-all-fresh', action='store_true')
    ap.add_argument('--lean-cmd', default='lake env lean --run scratch/Scratch.lean')
    args = ap.parse_args()
    rng = np.random.RandomState(args.seed)
    requests = []   # (lean request line, python result dict, description)
    n_exc = 0
    caller_changed = []   # (history, k) : caller array changed by an object operation
    # directed histories first: fill every cache, then one method (every row once), then — with caller writes —
    # a write into the array that call passed; afterwards the random ones
    directed = [['READALL', m] + (['caller_write#2'] if args.caller_writes else []) for m in METHODS]
    directed += [['READALL', 'reset_values#80', m] for m in METHODS]
    for h in range(len(directed) + args.n):
        hist = directed[h] if h < len(directed) else draw_history(rng, args.caller_writes)
        a0 = rec(rng, N0)
        sf0 = np.array([0.5, 1.0, 2.0, 4.0, 8.0]); rt0 = np.array([0.2, 0.5, 1.0])
        s = eqsig.AccSignal(a0, DT, smooth_fa_freqs=sf0, response_times=rt0)
        held = [a0]                      # k-th entry = array passed by the k-th call (1 = constructor)
        snap = [a0.tobytes()]
        nchg = [0]                       # how often the k-th caller array changed content
        done = []                        # model-level names of the operations actually performed
        for op in hist:
            base, _, num = op.partition('#')
            try:
                if op == 'READALL':
                    for q in QUANTS:
                        getattr(s, q)
                    done.extend(QUANTS)
                elif base == 'caller_write':
                    k = int(num)
                    if k <= len(held):
                        if held[k - 1] is not None:
                            held[k - 1][0] += 1.0
                        done.append(op)
                elif base in METHODS:
                    a = METHODS[base](s, rng, int(num) if num else None)
                    a = a if isinstance(a, np.ndarray) else None
                    held.append(a); snap.append(a.tobytes() if a is not None else None); nchg.append(0)
                    # the model takes the length of the new record as a parameter of value-replacing calls
                    done.append(base + '#%d' % len(s.values) if base in VALUE_MUTATORS else op)
                else:
                    getattr(s, base)
                    done.append(op)
            except Exception as e:      # an operation that raises is not an operation of the model
                n_exc += 1
                print('EXC', op, type(e).__name__, e, file=sys.stderr)
                break
            py = observe(s)
            al = any(shares(s.values, a) for a in held)
            rtal = any(shares(s.response_times, a) for a in held)
            sfal = any(shares(s.smooth_fa_freqs, a) for a in held)
            # caller arrays must be bit-identical to what the caller last put there, unless shared with _values
            for k, a in enumerate(held):
                if a is not None and a.tobytes() != snap[k]:
                    nchg[k] += 1
                    if base != 'caller_write':
                        caller_changed.append((list(done), k + 1, shares(s.values, a)))
                    snap[k] = a.tobytes()
            requests.append(('%s|%s|%s' % (args.variant, ' '.join(done), ' '.join(QUANTS)),
                             py, (al, rtal, sfal), list(done), list(nchg), [a is not None for a in held]))
    # ---- Lean side
    inp = '\n'.join(r[0] for r in requests) + '\n'
    res = subprocess.run(args.lean_cmd.split(), input=inp, capture_output=True, text=True, cwd=os.getcwd())
    lines = [l for l in res.stdout.splitlines() if l.startswith('ok|') or l.startswith('bad|')]
    assert len(lines) == len(requests), (len(lines), len(requests), res.stderr[-2000:])
    n_cmp = 0; agree = 0
    model_stale_py_fresh = []; model_fresh_py_stale = []; both_stale = 0
    close_only = 0
    alias_mis = []
    any_alias = 0
    content_mis = []; content_model_more = 0
    for (req, py, als, done, nchg, isarr), line in zip(requests, lines):
        assert line.startswith('ok|'), (req, line)
        _, preds, al, rtal, sfal, content = line.split('|')
        mc = [int(x) for x in content.split(':')[1].split(',')]
        assert len(mc) == len(nchg), (mc, nchg, done)
        for k in range(len(mc)):
            if isarr[k]:
                if nchg[k] > mc[k]: content_mis.append((done, k + 1, nchg[k], mc[k]))
                elif nchg[k] < mc[k]: content_model_more += 1
        model = {p.split(':')[0]: p.split(':')[1] == 'T' for p in preds.split()}
        m_al = tuple(x.split(':')[1] == 'T' for x in (al, rtal, sfal))
        if m_al != als:
            alias_mis.append((done, m_al, als))
        any_alias += int(als[0])
        for q in QUANTS:
            n_cmp += 1
            pf_exact, pf_close = py[q]
            if pf_close and not pf_exact:
                close_only += 1
            if model[q] and pf_exact: agree += 1
            elif (not model[q]) and (not pf_exact): agree += 1; both_stale += 1
            elif model[q] and not pf_exact: model_fresh_py_stale.append((done, q, pf_close))
            else: model_stale_py_fresh.append((done, q))
    print('variant', args.variant, 'histories', len(directed) + args.n, 'states checked', len(requests), 'comparisons', n_cmp,
          'exceptions', n_exc)
    print('  agree', agree, '(both stale: %d)' % both_stale, ' allclose-but-not-bit-equal:', close_only)
    print('  MODEL FRESH / PYTHON STALE :', len(model_fresh_py_stale))
    for x in model_fresh_py_stale[:8]: print('     ', x)
    print('  model stale / python fresh :', len(model_stale_py_fresh))
    hist = {}
    for d, q in model_stale_py_fresh: hist[q] = hist.get(q, 0) + 1
    print('      by quantity:', hist)
    for x in model_stale_py_fresh[:4]: print('     ', x[0][-4:], x[1])
    print('  alias prediction mismatches:', len(alias_mis), ' states with _values shared (python):', any_alias)
    for x in alias_mis[:8]: print('     ', x)
    unexpected = [c for c in caller_changed if not c[2]]
    print('  caller arrays changed by object ops:', len(caller_changed), ' of which NOT shared with _values:', len(unexpected))
    for x in caller_changed[:4]: print('     ', x)
    print('  caller-array change counts: python > model:', len(content_mis), ' model > python (write without bit change):', content_model_more)
    for x in content_mis[:4]: print('     ', x)
    ok = (len(model_fresh_py_stale) == 0 and len(alias_mis) == 0 and len(unexpected) == 0 and len(content_mis) == 0)
    if args.expect_all_fresh:
        ok = ok and both_stale == 0 and len(model_stale_py_fresh) == 0
    print('RESULT', 'PASS' if ok else 'FAIL')
    sys.exit(0 if ok else 1)


if __name__ == '__main__':
    main()
