#!/bin/sh
# runs every validation campaign; must be started in the lean project directory (lake env …)
PY=/venv/bin/python
V=scratch/validate.py
RV="reset_values add_constant add_series add_signal butter_pass remove_average remove_poly set_zero_residual_velocity set_zero_residual_displacement set_zero_residual_displacement_and_velocity correct_me"
run() { tree=$1; shift; echo "### tree=$tree $*"; PYTHONPATH=$tree $PY $V "$@" 2>/dev/null | grep -v WARNING; }
# 1. fixed tree vs golden table: everything fresh, nothing shared
run /tmp/repo_fixed golden --n 400 --seed 1 --expect-all-fresh
# 2. fixed tree vs golden table, caller writes into arrays it passed
run /tmp/repo_fixed golden --n 400 --seed 2 --caller-writes
# 3. corrupted source vs correspondingly corrupted table (two-way agreement of the stale sets)
run scratch/mutA "drop:response_times=:_cached_response_spectra;drop:response_series/given:_cached_response_spectra" --n 400 --seed 3
run scratch/mutB "dropall:_cached_disp_and_velo" --n 400 --seed 4
run scratch/mutC "dropall:_cached_fa" --n 400 --seed 5
run scratch/mutD "store:reset_values:_values:reference;dropwrite:set_zero_residual_velocity:_values:copy;dropwrite:set_zero_residual_displacement:_values:copy;dropwrite:set_zero_residual_displacement_and_velocity:_values:copy" --n 400 --seed 6 --caller-writes
NP=""; for r in $RV; do NP="$NP;nonpts:$r"; done
run scratch/mutE "${NP#;}" --n 400 --seed 7
