#!/bin/sh
# runs every validation campaign; must be started in the lean project directory (lake env …)
PY=/venv/bin/python
V=scratch/validate.py
# scratch copies of the fixed tree, each with ONE line of single.py removed / changed
if [ ! -d scratch/mutA ]; then
  for m in A B C D E; do mkdir -p scratch/mut$m; cp -r /tmp/repo_fixed/eqsig scratch/mut$m/eqsig; done
  /venv/bin/python - <<'PYEOF'
def edit(m, old, new):
    p = 'scratch/mut%s/eqsig/single.py' % m
    s = open(p).read(); assert s.count(old) == 1, (m, old); open(p, 'w').write(s.replace(old, new))
# A: the response_times setter does not reset the flag (= the pre-fix plain attribute)
edit('A', "        self._response_times = response_times\n        self._cached_response_spectra = False\n", "        self._response_times = response_times\n")
# B: AccSignal.clear_cache forgets the velocity/displacement flag
edit('B', "        self._cached_response_spectra = False\n        self._cached_disp_and_velo = False\n        self.reset_all_motion_stats()", "        self._cached_response_spectra = False\n        self.reset_all_motion_stats()")
# C: AccSignal.clear_cache forgets the Fourier flag
edit('C', "        self._cached_smooth_fa = False\n        self._cached_fa = False\n        self._cached_response_spectra = False\n", "        self._cached_smooth_fa = False\n        self._cached_response_spectra = False\n")
# D: reset_values stores the reference (pre-fix)
edit('D', "        self._values = np.array(new_values)\n", "        self._values = new_values\n")
# E: reset_values forgets _npts
edit('E', "        self._values = np.array(new_values)\n        self._npts = len(new_values)\n", "        self._values = np.array(new_values)\n")
PYEOF
fi
RV="reset_values add_constant add_series add_signal butter_pass remove_average remove_poly set_zero_residual_velocity set_zero_residual_displacement set_zero_residual_displacement_and_velocity correct_me"
run() { tree=$1; shift; echo "### tree=$tree $*"; PYTHONPATH=$tree $PY $V "$@" 2>/dev/null | grep -v WARNING; }
# 1. fixed tree vs golden table: everything fresh, nothing shared
run /tmp/repo_fixed golden --n 400 --seed 1 --expect-all-fresh
# 2. fixed tree vs golden table, caller writes into arrays it passed
run /tmp/repo_fixed golden --n 400 --seed 2 --caller-writes
# 3. corrupted source vs correspondingly corrupted table (two-way agreement of the stale sets)
run scratch/mutA "drop:response_times=:_cached_response_spectra;drop:response_series/given:_cached_response_spectra" --n 400 --seed 3
run scratch/mutB "dropall:_cached_disp_and_velo" --n 400 --seed 4
run scratch/mutC "dropall:_cached_fa" --n 400 --seed 5
run scratch/mutD "store:reset_values:_values:reference;dropwrite:set_zero_residual_velocity:_values:copy;dropwrite:set_zero_residual_displacement:_values:copy;dropwrite:set_zero_residual_displacement_and_velocity:_values:copy" --n 400 --seed 6 --caller-writes
NP=""; for r in $RV; do NP="$NP;nonpts:$r"; done
run scratch/mutE "${NP#;}" --n 400 --seed 7
