import EqsigVerif.Model.SignalSM
import EqsigVerif.Model.Effects
import EqsigVerif.Lemmas.SignalSM
import EqsigVerif.GenGolden.CacheTable
import EqsigVerif.Gen.CacheTable
import EqsigVerif.GenGolden.Effects
import EqsigVerif.Gen.Effects
/-!
# C05 — Signal objects own their data; analysis functions do not mutate inputs

Ownership is stated on the abstract heap of `Model/SignalSM.lean`: `s.ident inp` is the identity of the array
stored in input attribute `inp`, `s.held` the identities of the arrays the caller created and passed in (to the
constructor, `reset_values`, setters, …; every call may pass a new array or one passed before), `s.content k`
counts the writes into array `k`.  Histories are arbitrary lists of `Op`, *including* `callerWrite`.
-/
namespace EqsigVerif.Props.C05
open EqsigVerif.Model.SignalSM EqsigVerif.Model.Effects

/-- **C05.a** `no_sharing` (per input): if no row of the table stores the caller's reference into input `inp`,
then after every history the array the object holds in `inp` is none of the arrays the caller holds. -/
theorem no_sharing (tbl : CacheTable) (inp : String) (h : CopiesOf tbl inp) (n0 : Nat) (ops : List Op) :
    (run tbl (init tbl n0) ops).ident inp ∉ (run tbl (init tbl n0) ops).held :=
  (own_run tbl (· = inp) (fun _ e => e ▸ h) ops _
    (own_init tbl (· = inp) (fun _ e => e ▸ h) n0) inp rfl).2.2

/-- **C05.a** for the record array: `AllCopies tbl` (every store of `_values` is a copy) ⇒ the object's record
is never an array the caller holds. -/
theorem no_sharing_values (tbl : CacheTable) (h : AllCopies tbl) (n0 : Nat) (ops : List Op) :
    (run tbl (init tbl n0) ops).ident valuesInput ∉ (run tbl (init tbl n0) ops).held :=
  no_sharing tbl valuesInput h n0 ops

/-- the executable `aliasPrediction`-style check is `false` on every history -/
theorem no_sharing_values_bool (tbl : CacheTable) (h : AllCopies tbl) (n0 : Nat) (ops : List Op) :
    (run tbl (init tbl n0) ops).held.contains ((run tbl (init tbl n0) ops).ident valuesInput) = false := by
  have := no_sharing_values tbl h n0 ops
  simpa using this

/-- **C05.a, consequence 1** no object operation (method call or read) changes the content of any array the
caller holds — provided in-place writes only go to inputs that are never stored by reference
(`InplaceOwned`, decidable; on the golden table the only in-place written input is `_values`). -/
theorem object_ops_keep_caller_arrays (tbl : CacheTable) (hio : InplaceOwned tbl) (n0 : Nat) (ops : List Op)
    (op : Op) (hop : op.isObj = true) (k : Nat) (hk : k ∈ (run tbl (init tbl n0) ops).held) :
    (step tbl (run tbl (init tbl n0) ops) op).1.content k = (run tbl (init tbl n0) ops).content k := by
  have hown : ∀ j, CopiesOf tbl j → Own j (run tbl (init tbl n0) ops) :=
    own_run tbl (CopiesOf tbl) (fun _ h => h) ops _ (own_init tbl (CopiesOf tbl) (fun _ h => h) n0)
  cases op with
  | mutate row arg n =>
    simp only [step]
    split
    · rename_i m hm
      exact applyRow_content tbl hio m (List.mem_of_find?_eq_some hm) arg n _ hown k hk
    · rfl
  | read q =>
    simp only [step]
    rw [(read_frame tbl _ q).2.2.2.2.1]
  | callerWrite _ => simp [Op.isObj] at hop

/-- **C05.a, consequence 2** a write of the caller into any array it holds changes neither the content the object
sees in an owned input nor any cache. -/
theorem caller_writes_keep_owned_inputs (tbl : CacheTable) (inp : String) (h : CopiesOf tbl inp) (n0 : Nat)
    (ops : List Op) (k : Nat) :
    (step tbl (run tbl (init tbl n0) ops) (.callerWrite k)).1.ver inp = (run tbl (init tbl n0) ops).ver inp ∧
    (step tbl (run tbl (init tbl n0) ops) (.callerWrite k)).1.cache = (run tbl (init tbl n0) ops).cache :=
  callerWrite_ver inp k _
    (own_run tbl (· = inp) (fun _ e => e ▸ h) ops _ (own_init tbl (· = inp) (fun _ e => e ▸ h) n0) inp rfl)

/-- **C05.a, consequence 3** (with C04): for a `TableOK` table, in *arbitrary* histories — the caller keeps
writing into the arrays it passed — every read reports a value computed from the current content of every input
the object owns (inputs never stored by reference).  No caller write can make the object's view of an owned input
stale. -/
theorem fresh_on_owned_inputs (tbl : CacheTable) (hok : TableOK tbl) (n0 : Nat) (pre : List Op) (q : String)
    (i : String) (hi : i ∈ deps tbl q) (hown : CopiesOf tbl i) :
    (read tbl (run tbl (init tbl n0) pre) q).2 i = (read tbl (run tbl (init tbl n0) pre) q).1.ver i := by
  obtain ⟨hinv, _, _⟩ := good_run tbl hok pre _ (good_init tbl hok n0)
  obtain ⟨_, hF, hfresh⟩ := read_spec _ tbl _ q hinv
  rw [hfresh i hi hown, hF.1]

/-- a quantity all of whose (transitive) inputs are owned -/
def ownedQuantity (tbl : CacheTable) (q : String) : Bool := (deps tbl q).all (copiesOf tbl)

/-- **C05.a, consequence 3, per quantity**: no caller write changes an observation of a quantity that reads
owned inputs only — it is fresh in every history, with or without caller writes. -/
theorem never_stale_with_caller_writes (tbl : CacheTable) (hok : TableOK tbl) (n0 : Nat) (pre : List Op)
    (q : String) (hq : ownedQuantity tbl q = true) :
    Fresh tbl (read tbl (run tbl (init tbl n0) pre) q).1 ⟨q, (read tbl (run tbl (init tbl n0) pre) q).2⟩ := by
  intro i hi
  exact fresh_on_owned_inputs tbl hok n0 pre q i hi (List.all_eq_true.mp hq i hi)

/-- … in particular for every quantity when every store of the table is a copy (the literal premise of C05.a) -/
theorem never_stale_all_copies (tbl : CacheTable) (hok : TableOK tbl) (hcp : EveryStoreCopies tbl)
    (n0 : Nat) (pre : List Op) (q : String) :
    Fresh tbl (read tbl (run tbl (init tbl n0) pre) q).1 ⟨q, (read tbl (run tbl (init tbl n0) pre) q).2⟩ := by
  intro i hi
  exact fresh_on_owned_inputs tbl hok n0 pre q i hi (copiesOf_of_every hcp i)

/-! ### The obligations on the tables -/

theorem allCopies_golden : AllCopies EqsigVerif.GenGolden.cacheTable := by decide
theorem allCopies_gen : AllCopies EqsigVerif.Gen.cacheTable := by decide
theorem inplaceOwned_golden : InplaceOwned EqsigVerif.GenGolden.cacheTable := by decide
theorem inplaceOwned_gen : InplaceOwned EqsigVerif.Gen.cacheTable := by decide

open EqsigVerif.GenGolden in
/-- non-vacuity of `no_sharing_values` / `object_ops_keep_caller_arrays` on a concrete history: the caller passes
an array to `reset_values`, the object then corrects itself in place; the caller's array (identity 2: the
constructor argument is 1… see `chooseArg`) is untouched. -/
example :
    let s := run cacheTable (init cacheTable 64) [.mutate "reset_values" none 64]
    s.held.contains (s.ident valuesInput) = false ∧
    s.held.all (fun k => (step cacheTable s (.mutate "rebase_displacement" none 0)).1.content k == s.content k)
      = true := by
  decide

open EqsigVerif.GenGolden in
/-- not vacuous (finding F05-1, the pre-fix code): `reset_values` storing the reference fails `AllCopies` … -/
example : ¬ AllCopies (cacheTable.setStore "reset_values" "_values" .reference) := by decide

open EqsigVerif.GenGolden in
/-- … the model then predicts that the record is the caller's array, that `rebase_displacement` changes the
caller's array, and that a caller write makes a cached quantity stale -/
example :
    let tbl := cacheTable.setStore "reset_values" "_values" .reference
    let s := run tbl (init tbl 64) [.mutate "reset_values" none 64]
    s.held.contains (s.ident valuesInput) = true ∧
    (step tbl s (.mutate "rebase_displacement" none 0)).1.content (s.ident valuesInput)
      = s.content (s.ident valuesInput) + 1 ∧
    runObs tbl s [.read "pga", .callerWrite (s.ident valuesInput), .read "pga"]
      = [("pga", true), ("pga", false)] := by
  decide

open EqsigVerif.GenGolden in
/-- **Finding (new, F05-2)**: the fixed tree still stores the caller's reference for the *settings*
`response_times` (`response_times=`, `gen_response_spectrum(response_times=…)`, `response_series(response_times=…)`)
and `gen_smooth_fa_spectrum(smooth_fa_freqs=…)`; so the literal premise "every store is a copy" fails on the
golden table … -/
example : ¬ EveryStoreCopies cacheTable := by decide
open EqsigVerif.GenGolden in
example : ¬ CopiesOf cacheTable "_response_times" := by decide
open EqsigVerif.GenGolden in
example : ¬ CopiesOf cacheTable "_smooth_fa_freqs" := by decide

open EqsigVerif.GenGolden in
/-- … and the model predicts the stale `s_a` that Python shows when the caller edits the period array it passed
(`rt = np.array(…); asig.response_times = rt; asig.s_a; rt[0] = 1.5; asig.s_a`)  [observed]. -/
example :
    let s := run cacheTable (init cacheTable 64) [.mutate "response_times=" none 64]
    runObs cacheTable s [.read "s_a", .callerWrite (s.ident "_response_times"), .read "s_a", .read "pga"]
      = [("s_a", true), ("s_a", false), ("pga", true)] := by
  decide

/-- the table with the four reference stores of the settings turned into copies (the repair of F05-2) -/
def goldenAllCopies : CacheTable :=
  (((((EqsigVerif.GenGolden.cacheTable.setStore "response_times=" "_response_times" .copy).setStore
    "gen_response_spectrum/given" "_response_times" .copy).setStore
    "generate_response_spectrum/given" "_response_times" .copy).setStore
    "response_series/given" "_response_times" .copy).setStore
    "gen_smooth_fa_spectrum/given" "_smooth_fa_freqs" .copy)

/-- non-vacuity of `never_stale_all_copies`: its premises hold for the repaired table -/
example : TableOK goldenAllCopies ∧ EveryStoreCopies goldenAllCopies := by decide

open EqsigVerif.GenGolden in
/-- non-vacuity of `never_stale_with_caller_writes` on the golden table: every quantity except the response
spectra and the smoothed spectrum (and the two settings themselves) reads owned inputs only -/
example :
    (cacheTable.quantities.filter (fun q => !ownedQuantity cacheTable q.name)).map (·.name)
      = ["smooth_fa_freqs", "smooth_fa_frequencies", "smooth_freq_range", "smooth_freq_points", "response_times",
         "smooth_fa_spectrum", "s_a", "s_v", "s_d"] := by decide

open EqsigVerif.GenGolden in
example :
    let s := run cacheTable (init cacheTable 64) [.mutate "reset_values" none 64, .read "velocity"]
    runObs cacheTable s [.callerWrite 1, .callerWrite 2, .read "velocity", .read "fa_spectrum"]
      = [("velocity", true), ("fa_spectrum", true)] := by decide

/-- **C05.b** `values_shape`: if no row replaces the record without assigning `_npts` (`NptsOK`) — where a row
that takes the new length from a cached record-shaped property (`remove_rolling_average`: `self._values = acc`,
`len(acc) = len(self.velocity)`) relies on that cache being fresh, hence `TableOK` — then in every reachable state
`len(values) = npts`; `time` is recomputed as `arange(npts)·dt` on every read (quantity row `time` has no guard and
reads `npts`, `dt`), hence `time = dt·[0..len(values))`. (Same statement as the C04 npts/time invariant; histories
include caller writes.) -/
theorem values_shape (tbl : CacheTable) (hok : TableOK tbl) (hn : NptsOK tbl) (n0 : Nat) (ops : List Op) :
    (run tbl (init tbl n0) ops).len = (run tbl (init tbl n0) ops).npts :=
  ((good_run tbl hok ops _ (good_init tbl hok n0)).2.2 hn).symm

theorem tableOK_golden : TableOK EqsigVerif.GenGolden.cacheTable := by decide
theorem tableOK_gen : TableOK EqsigVerif.Gen.cacheTable := by decide

theorem nptsOK_golden : NptsOK EqsigVerif.GenGolden.cacheTable := by decide
theorem nptsOK_gen : NptsOK EqsigVerif.Gen.cacheTable := by decide

open EqsigVerif.GenGolden in
/-- the golden `time` row is unguarded and reads exactly `_npts` and `_dt` -/
example : (findQ cacheTable "time").map (·.guard) = some none ∧ deps cacheTable "time" = ["_npts", "_dt"] := by
  decide

open EqsigVerif.GenGolden in
example :
    (run cacheTable (init cacheTable 64)
      [.mutate "reset_values" none 80, .mutate "running_average" none 0, .callerWrite 1,
       .mutate "remove_rolling_average/velocity" none 3]).len = 80 := by decide

open EqsigVerif.GenGolden in
example : ¬ NptsOK (cacheTable.dropNpts "reset_values") := by decide

/-- **C05.c** `Effects_clean`: no public function in the generated summary has an in-place construct whose
target may alias a parameter (syntactic guarantee, sound for the constructs the scanner knows). -/
theorem effects_clean_golden : EffectsClean EqsigVerif.GenGolden.effects := by decide +kernel
theorem effects_clean_gen : EffectsClean EqsigVerif.Gen.effects := by decide +kernel

/-- not vacuous: a function that sorts its argument in place is rejected -/
example : ¬ EffectsClean (⟨"bad_fn", true, 12⟩ :: EqsigVerif.GenGolden.effects) := by decide +kernel

end EqsigVerif.Props.C05
