import EqsigVerif.Model.SignalSM
import EqsigVerif.Lemmas.SignalSM
import EqsigVerif.GenGolden.CacheTable
import EqsigVerif.Gen.CacheTable
/-!
# C04 — Derived quantities of a signal object never go stale

Histories are lists of `Op` (method call by table row / read of a property) run by
`Model.SignalSM.step` from a newly constructed object `init tbl n0`.  `Op.isObj` excludes the only
non-object operation (`callerWrite`, which belongs to C05).
-/
namespace EqsigVerif.Props.C04
open EqsigVerif.Model.SignalSM

/-- **C04.a** For a table that satisfies the decidable obligation `TableOK`, in every history of object
operations every read reports a value computed from the inputs the object holds at that moment
(`Fresh`: the snapshot behind the reported value agrees with the current input versions on everything the
generator transitively reads). -/
theorem never_stale (tbl : CacheTable) (hok : TableOK tbl) (n0 : Nat) (ops : List Op)
    (hobj : ∀ op, op ∈ ops → op.isObj = true) (pre post : List Op) (q : String)
    (hsplit : ops = pre ++ Op.read q :: post) :
    Fresh tbl (read tbl (run tbl (init tbl n0) pre) q).1 ⟨q, (read tbl (run tbl (init tbl n0) pre) q).2⟩ := by
  have hinv : Inv tbl (run tbl (init tbl n0) pre) :=
    inv_run tbl hok pre (fun o ho => hobj o (by rw [hsplit]; exact List.mem_append_left _ ho)) _
      (inv_init tbl hok n0)
  obtain ⟨_, hF, hfresh⟩ := read_spec tbl _ q hinv
  intro i hi
  simp only at hi ⊢
  rw [hfresh i hi, hF.1]

/-- **C04.a, value form** Under any numeric interpretation whose generators depend only on the inputs they
read, every read in every history returns exactly what a freshly constructed object with the same inputs
returns. -/
theorem never_stale_value {V W : Type} (tbl : CacheTable) (hok : TableOK tbl)
    (val : String → Nat → V) (eval : String → (String → V) → W) (hloc : EvalLocal tbl eval)
    (n0 : Nat) (ops : List Op) (hobj : ∀ op, op ∈ ops → op.isObj = true) (pre post : List Op) (q : String)
    (hsplit : ops = pre ++ Op.read q :: post) :
    (Observation.mk q (read tbl (run tbl (init tbl n0) pre) q).2).value val eval
      = freshValue val eval (read tbl (run tbl (init tbl n0) pre) q).1 q := by
  have h := never_stale tbl hok n0 ops hobj pre post q hsplit
  unfold Observation.value freshValue
  apply hloc
  intro i hi
  rw [h i hi]

/-- **C04.b** the obligation on the golden table (the same `decide` runs on the regenerated table below) -/
theorem tableOK_golden : TableOK EqsigVerif.GenGolden.cacheTable := by decide

/-- **C04.b** the obligation on the table regenerated from the working tree -/
theorem tableOK_gen : TableOK EqsigVerif.Gen.cacheTable := by decide

/-- the golden table is well formed (property reads resolve and are acyclic, names unique) -/
theorem wellFormed_golden : WellFormed EqsigVerif.GenGolden.cacheTable := by decide
theorem wellFormed_gen : WellFormed EqsigVerif.Gen.cacheTable := by decide

open EqsigVerif.GenGolden in
/-- non-vacuity of `never_stale`: a concrete history on the golden table (read, change the periods, read). -/
example :
    Fresh cacheTable
      (read cacheTable (run cacheTable (init cacheTable 64)
        [.read "s_a", .mutate "response_times=" none 64]) "s_a").1
      ⟨"s_a", (read cacheTable (run cacheTable (init cacheTable 64)
        [.read "s_a", .mutate "response_times=" none 64]) "s_a").2⟩ :=
  never_stale cacheTable tableOK_golden 64
    [.read "s_a", .mutate "response_times=" none 64, .read "s_a"] (by decide)
    [.read "s_a", .mutate "response_times=" none 64] [] "s_a" rfl

open EqsigVerif.GenGolden in
/-- the check is not vacuous (1): the pre-fix code — `response_times` a plain attribute, nothing reset — fails
the obligation (finding F04-1) … -/
example : ¬ TableOK (cacheTable.dropClear "response_times=" "_cached_response_spectra") := by decide

open EqsigVerif.GenGolden in
/-- … and the model then predicts the stale read that the unfixed Python code shows -/
example :
    runObs (cacheTable.dropClear "response_times=" "_cached_response_spectra")
      (init (cacheTable.dropClear "response_times=" "_cached_response_spectra") 64)
      [.read "s_a", .mutate "response_times=" none 64, .read "s_a"] = [("s_a", true), ("s_a", false)] := by
  decide

open EqsigVerif.GenGolden in
/-- the check is not vacuous (2): a mutator that forgets the velocity/displacement flag -/
example : ¬ TableOK (cacheTable.dropClear "rebase_displacement" "_cached_disp_and_velo") := by decide

open EqsigVerif.GenGolden in
example :
    runObs (cacheTable.dropClear "rebase_displacement" "_cached_disp_and_velo")
      (init (cacheTable.dropClear "rebase_displacement" "_cached_disp_and_velo") 64)
      [.mutate "rebase_displacement" none 64, .read "velocity", .read "pga"]
      = [("velocity", false), ("pga", true)] := by
  decide

open EqsigVerif.GenGolden in
/-- the check is not vacuous (3): a line dropped from `clear_cache` breaks every mutator row -/
example : ¬ TableOK (cacheTable.dropClearEverywhere "_cached_fa") := by decide

end EqsigVerif.Props.C04
