import EqsigVerif.Model.SignalSM
/-!
# Lemmas about the signal-object state machine (C04 / C05) — core Lean only
-/
namespace EqsigVerif.Model.SignalSM

/-! ## The cache invariant -/

/-- every valid cache was computed from input versions that agree with the current ones on everything the
generator of any quantity it guards (transitively) reads -/
def Inv (tbl : CacheTable) (s : Obj) : Prop :=
  ∀ g snap, s.cache g = some snap →
    ∀ n q, findQ tbl n = some q → q.guard = some g → ∀ i, i ∈ deps tbl n → snap i = s.ver i

/-- `s'` differs from `s` at most in the caches -/
def Frame (s' s : Obj) : Prop :=
  s'.ver = s.ver ∧ s'.len = s.len ∧ s'.npts = s.npts ∧ s'.ident = s.ident ∧ s'.content = s.content ∧
    s'.nextId = s.nextId ∧ s'.held = s.held

theorem Frame.refl (s : Obj) : Frame s s := ⟨rfl, rfl, rfl, rfl, rfl, rfl, rfl⟩

theorem Frame.trans {a b c : Obj} (h1 : Frame a b) (h2 : Frame b c) : Frame a c := by
  obtain ⟨a1, a2, a3, a4, a5, a6, a7⟩ := h1
  obtain ⟨b1, b2, b3, b4, b5, b6, b7⟩ := h2
  exact ⟨a1.trans b1, a2.trans b2, a3.trans b3, a4.trans b4, a5.trans b5, a6.trans b6, a7.trans b7⟩

theorem Inv.congr {tbl : CacheTable} {s s' : Obj} (hv : s'.ver = s.ver) (hc : s'.cache = s.cache)
    (h : Inv tbl s) : Inv tbl s' := by
  intro g snap hg n q hq hgu i hi
  rw [hc] at hg
  rw [hv]
  exact h g snap hg n q hq hgu i hi

theorem inv_blank (tbl : CacheTable) : Inv tbl blank := by
  intro g snap hg
  simp [blank] at hg

/-! ## Reads -/

/-- what a read function must satisfy (used for `readQ tbl k` at every `k`) -/
def ReadSpec (tbl : CacheTable) (rd : Obj → String → Obj × Snap) : Prop :=
  ∀ s n, Inv tbl s →
    Inv tbl (rd s n).1 ∧ Frame (rd s n).1 s ∧ ∀ i, i ∈ deps tbl n → (rd s n).2 i = s.ver i

theorem mergeSnap_eq (tbl : CacheTable) (cur : Snap) (subs : List (String × Snap))
    (h : ∀ p, p ∈ subs → ∀ i, i ∈ deps tbl p.1 → p.2 i = cur i) (i : String) :
    mergeSnap tbl cur subs i = cur i := by
  induction subs with
  | nil => rfl
  | cons p rest ih =>
    obtain ⟨q, sn⟩ := p
    have ih' := ih (fun p hp => h p (List.mem_cons_of_mem _ hp))
    simp only [mergeSnap]
    split
    · rename_i hc
      have hi : i ∈ deps tbl q := by simpa using hc
      have := h (q, sn) (List.mem_cons_self) i hi
      simp only at this
      rw [ih', this]
      exact Nat.min_self _
    · exact ih'

theorem readSubs_spec (tbl : CacheTable) (rd : Obj → String → Obj × Snap) (hrd : ReadSpec tbl rd)
    (qs : List String) (s : Obj) (hs : Inv tbl s) :
    Inv tbl (readSubs rd qs s).1 ∧ Frame (readSubs rd qs s).1 s ∧
      ∀ p, p ∈ (readSubs rd qs s).2 → ∀ i, i ∈ deps tbl p.1 → p.2 i = s.ver i := by
  induction qs generalizing s with
  | nil => exact ⟨hs, Frame.refl s, fun p hp => by simp [readSubs] at hp⟩
  | cons q qs ih =>
    obtain ⟨h1, h2, h3⟩ := hrd s q hs
    obtain ⟨k1, k2, k3⟩ := ih (rd s q).1 h1
    simp only [readSubs]
    refine ⟨k1, k2.trans h2, ?_⟩
    intro p hp i hi
    rcases List.mem_cons.mp hp with rfl | hp
    · exact h3 i hi
    · rw [k3 p hp i hi, h2.1]

theorem readQ_spec (tbl : CacheTable) (k : Nat) : ReadSpec tbl (readQ tbl k) := by
  induction k with
  | zero =>
    intro s n hs
    exact ⟨hs, Frame.refl s, fun _ _ => rfl⟩
  | succ k ih =>
    intro s n hs
    unfold readQ
    split
    · exact ⟨hs, Frame.refl s, fun _ _ => rfl⟩
    · rename_i q hq
      split
      · -- uncached quantity
        obtain ⟨k1, k2, k3⟩ := readSubs_spec tbl (readQ tbl k) ih q.readsQuantities s hs
        refine ⟨k1, k2, ?_⟩
        intro i _
        simp only
        rw [mergeSnap_eq tbl _ _ (fun p hp i hi => by rw [k3 p hp i hi, k2.1]) i, k2.1]
      · rename_i g hg
        split
        · -- flag set: stored value
          rename_i snap hc
          exact ⟨hs, Frame.refl s, fun i hi => hs g snap hc n q hq hg i hi⟩
        · -- flag not set: generate, store, set flag
          rename_i hc
          obtain ⟨k1, k2, k3⟩ := readSubs_spec tbl (readQ tbl k) ih q.readsQuantities s hs
          have hm : ∀ i, mergeSnap tbl (readSubs (readQ tbl k) q.readsQuantities s).1.ver
              (readSubs (readQ tbl k) q.readsQuantities s).2 i = s.ver i := by
            intro i
            rw [mergeSnap_eq tbl _ _ (fun p hp i hi => by rw [k3 p hp i hi, k2.1]) i, k2.1]
          refine ⟨?_, ?_, fun i _ => hm i⟩
          · intro g' snap' hg' n' q' hq' hgu' i hi
            simp only at hg' ⊢
            split at hg'
            · cases hg'
              rw [hm i, k2.1]
            · exact k1 g' snap' hg' n' q' hq' hgu' i hi
          · exact ⟨k2.1, k2.2.1, k2.2.2.1, k2.2.2.2.1, k2.2.2.2.2.1, k2.2.2.2.2.2.1, k2.2.2.2.2.2.2⟩

theorem read_spec (tbl : CacheTable) : ReadSpec tbl (read tbl) := readQ_spec tbl (fuel tbl)

theorem preReads_spec (tbl : CacheTable) (qs : List String) (s : Obj) (hs : Inv tbl s) :
    Inv tbl (preReads tbl qs s) ∧ Frame (preReads tbl qs s) s := by
  induction qs generalizing s with
  | nil => exact ⟨hs, Frame.refl s⟩
  | cons q qs ih =>
    obtain ⟨h1, h2, _⟩ := read_spec tbl s q hs
    obtain ⟨k1, k2⟩ := ih (read tbl s q).1 h1
    exact ⟨k1, k2.trans h2⟩

theorem doFills_spec (tbl : CacheTable) (gs : List String) (s : Obj) (hs : Inv tbl s) :
    Inv tbl (doFills tbl gs s) ∧ Frame (doFills tbl gs s) s := by
  induction gs generalizing s with
  | nil => exact ⟨hs, Frame.refl s⟩
  | cons g gs ih =>
    simp only [doFills]
    split
    · rename_i q _
      obtain ⟨h1, h2, _⟩ := read_spec tbl s q.name hs
      obtain ⟨k1, k2⟩ := ih (read tbl s q.name).1 h1
      exact ⟨k1, k2.trans h2⟩
    · exact ih s hs

/-! ## Reads change nothing but caches (no hypothesis on the table) -/

theorem readSubs_frame (rd : Obj → String → Obj × Snap) (hrd : ∀ s n, Frame (rd s n).1 s)
    (qs : List String) (s : Obj) : Frame (readSubs rd qs s).1 s := by
  induction qs generalizing s with
  | nil => exact Frame.refl s
  | cons q qs ih => simp only [readSubs]; exact (ih _).trans (hrd s q)

theorem readQ_frame (tbl : CacheTable) (k : Nat) (s : Obj) (n : String) : Frame (readQ tbl k s n).1 s := by
  induction k generalizing s n with
  | zero => exact Frame.refl s
  | succ k ih =>
    unfold readQ
    split
    · exact Frame.refl s
    · rename_i q _
      split
      · exact readSubs_frame _ ih _ s
      · split
        · exact Frame.refl s
        · have h := readSubs_frame (readQ tbl k) ih q.readsQuantities s
          exact ⟨h.1, h.2.1, h.2.2.1, h.2.2.2.1, h.2.2.2.2.1, h.2.2.2.2.2.1, h.2.2.2.2.2.2⟩

theorem read_frame (tbl : CacheTable) (s : Obj) (n : String) : Frame (read tbl s n).1 s :=
  readQ_frame tbl (fuel tbl) s n

theorem preReads_frame (tbl : CacheTable) (qs : List String) (s : Obj) : Frame (preReads tbl qs s) s := by
  induction qs generalizing s with
  | nil => exact Frame.refl s
  | cons q qs ih => exact (ih _).trans (read_frame tbl s q)

theorem doFills_frame (tbl : CacheTable) (gs : List String) (s : Obj) : Frame (doFills tbl gs s) s := by
  induction gs generalizing s with
  | nil => exact Frame.refl s
  | cons g gs ih =>
    simp only [doFills]
    split
    · exact (ih _).trans (read_frame tbl s _)
    · exact ih s

/-! ## Method calls -/

theorem chooseArg_ver (arg : Option Nat) (s : Obj) :
    (chooseArg arg s).1.ver = s.ver ∧ (chooseArg arg s).1.cache = s.cache ∧
    (chooseArg arg s).1.len = s.len ∧ (chooseArg arg s).1.npts = s.npts := by
  unfold chooseArg
  split
  · split <;> exact ⟨rfl, rfl, rfl, rfl⟩
  · exact ⟨rfl, rfl, rfl, rfl⟩

theorem heapWrite_ver (a : Nat) (s : Obj) (w : InputWrite) :
    (heapWrite a s w).ver = s.ver ∧ (heapWrite a s w).cache = s.cache ∧
    (heapWrite a s w).len = s.len ∧ (heapWrite a s w).npts = s.npts := by
  unfold heapWrite
  split <;> exact ⟨rfl, rfl, rfl, rfl⟩

theorem heapWrites_ver (a : Nat) (ws : List InputWrite) (s : Obj) :
    (heapWrites a ws s).ver = s.ver ∧ (heapWrites a ws s).cache = s.cache ∧
    (heapWrites a ws s).len = s.len ∧ (heapWrites a ws s).npts = s.npts := by
  induction ws generalizing s with
  | nil => exact ⟨rfl, rfl, rfl, rfl⟩
  | cons w ws ih =>
    obtain ⟨h1, h2, h3, h4⟩ := ih (heapWrite a s w)
    obtain ⟨k1, k2, k3, k4⟩ := heapWrite_ver a s w
    exact ⟨h1.trans k1, h2.trans k2, h3.trans k3, h4.trans k4⟩

theorem setLen_ver (m : MethodRow) (n : Nat) (s : Obj) :
    (setLen m n s).ver = s.ver ∧ (setLen m n s).cache = s.cache := by
  unfold setLen
  split <;> exact ⟨rfl, rfl⟩

/-- the key step (prototype `inv_applyEff`): bump + clear keeps the invariant when the row is OK -/
theorem inv_bumpClear (tbl : CacheTable) (m : MethodRow) (hm : rowOK tbl m = true) (s : Obj)
    (hs : Inv tbl s) : Inv tbl (bumpClear m s) := by
  intro g snap hg n q hq hgu i hi
  simp only [bumpClear] at hg ⊢
  split at hg
  · exact absurd hg (by simp)
  · rename_i hnc
    have hsnap := hs g snap hg n q hq hgu i hi
    have hnw : (writtenInputs m).contains i = false := by
      cases hw : (writtenInputs m).contains i with
      | false => rfl
      | true =>
        exfalso
        apply hnc
        -- the row is OK, `q` is in the table under name `n`
        have hqmem : q ∈ tbl.quantities := List.mem_of_find?_eq_some hq
        have hqname : q.name = n := by
          have := List.find?_some hq
          simpa using this
        unfold rowOK at hm
        rcases Bool.or_eq_true _ _ |>.mp hm with hc | hall
        · simp [hc]
        · have hq' := List.all_eq_true.mp hall q hqmem
          simp only [hgu] at hq'
          have hany : ((writtenInputs m).any fun i => (deps tbl q.name).contains i) = true := by
            rw [List.any_eq_true]
            refine ⟨i, by simpa using hw, ?_⟩
            rw [hqname]
            simpa using hi
          rw [hany] at hq'
          simp only [Bool.not_true, Bool.false_or] at hq'
          rcases Bool.or_eq_true _ _ |>.mp hq' with h1 | h2
          · simp only [h1, Bool.or_true, Bool.true_or]
          · simp only [h2, Bool.or_true]
    rw [hnw]
    simpa using hsnap

theorem applyRow_ver (tbl : CacheTable) (m : MethodRow) (arg : Option Nat) (n : Nat) (s : Obj)
    (hs : Inv tbl s) (hm : rowOK tbl m = true) :
    Inv tbl (applyRow tbl m arg n s) := by
  unfold applyRow
  obtain ⟨h1, _⟩ := preReads_spec tbl m.reads s hs
  have hA := chooseArg_ver arg (preReads tbl m.reads s)
  have hW := heapWrites_ver (chooseArg arg (preReads tbl m.reads s)).2 m.writes
    (chooseArg arg (preReads tbl m.reads s)).1
  have h3 : Inv tbl (heapWrites (chooseArg arg (preReads tbl m.reads s)).2 m.writes
      (chooseArg arg (preReads tbl m.reads s)).1) :=
    Inv.congr (hW.1.trans hA.1) (hW.2.1.trans hA.2.1) h1
  have h4 := inv_bumpClear tbl m hm _ h3
  have hL := setLen_ver m n (bumpClear m (heapWrites (chooseArg arg (preReads tbl m.reads s)).2 m.writes
      (chooseArg arg (preReads tbl m.reads s)).1))
  have h5 := Inv.congr hL.1 hL.2 h4
  exact (doFills_spec tbl m.fills _ h5).1

theorem rowOK_of_findM {tbl : CacheTable} (h : TableOK tbl) {row : String} {m : MethodRow}
    (hm : findM tbl row = some m) : rowOK tbl m = true :=
  List.all_eq_true.mp h m (List.mem_of_find?_eq_some hm)

/-- object operations: method calls and reads (everything but a write of the caller into an array it holds) -/
def Op.isObj : Op → Bool
  | .callerWrite _ => false
  | _ => true

theorem inv_step (tbl : CacheTable) (h : TableOK tbl) (s : Obj) (hs : Inv tbl s) (op : Op)
    (hop : op.isObj = true) : Inv tbl (step tbl s op).1 := by
  cases op with
  | mutate row arg n =>
    simp only [step]
    split
    · rename_i m hm
      exact applyRow_ver tbl m arg n s hs (rowOK_of_findM h hm)
    · exact hs
  | read q => exact (read_spec tbl s q hs).1
  | callerWrite k => simp [Op.isObj] at hop

theorem inv_run (tbl : CacheTable) (h : TableOK tbl) (ops : List Op) (hops : ∀ op, op ∈ ops → op.isObj = true)
    (s : Obj) (hs : Inv tbl s) : Inv tbl (run tbl s ops) := by
  induction ops generalizing s with
  | nil => exact hs
  | cons op ops ih =>
    simp only [run]
    exact ih (fun o ho => hops o (List.mem_cons_of_mem _ ho)) _
      (inv_step tbl h s hs op (hops op List.mem_cons_self))

theorem inv_init (tbl : CacheTable) (h : TableOK tbl) (n0 : Nat) : Inv tbl (init tbl n0) := by
  unfold init
  split
  · rename_i m hm
    exact applyRow_ver tbl m none n0 blank (inv_blank tbl)
      (List.all_eq_true.mp h m (List.mem_of_find?_eq_some hm))
  · exact inv_blank tbl

theorem run_append (tbl : CacheTable) (s : Obj) (a b : List Op) :
    run tbl s (a ++ b) = run tbl (run tbl s a) b := by
  induction a generalizing s with
  | nil => rfl
  | cons op a ih => simp only [List.cons_append, run]; exact ih _

/-! ## Versions evolve independently of the caches -/

theorem applyRow_ver_eq (tbl : CacheTable) (m : MethodRow) (arg : Option Nat) (n : Nat) (s : Obj) :
    (applyRow tbl m arg n s).ver =
      fun i => if (writtenInputs m).contains i then s.ver i + 1 else s.ver i := by
  unfold applyRow
  rw [(doFills_frame tbl m.fills _).1, (setLen_ver m n _).1]
  simp only [bumpClear]
  rw [(heapWrites_ver _ _ _).1, (chooseArg_ver _ _).1, (preReads_frame tbl m.reads s).1]

theorem step_ver_congr (tbl : CacheTable) (s1 s2 : Obj) (h : s1.ver = s2.ver) (op : Op)
    (hop : op.isObj = true) : (step tbl s1 op).1.ver = (step tbl s2 op).1.ver := by
  cases op with
  | mutate row arg n =>
    simp only [step]
    split
    · rw [applyRow_ver_eq, applyRow_ver_eq, h]
    · exact h
  | read q =>
    simp only [step]
    rw [(read_frame tbl s1 q).1, (read_frame tbl s2 q).1, h]
  | callerWrite k => simp [Op.isObj] at hop

/-! ## Length tracking (C05.b) -/

def ShapeOK (s : Obj) : Prop := s.npts = s.len

theorem shape_applyRow (tbl : CacheTable) (m : MethodRow) (hm : m.npts ≠ .notUpdated) (arg : Option Nat)
    (n : Nat) (s : Obj) (hs : ShapeOK s) : ShapeOK (applyRow tbl m arg n s) := by
  unfold applyRow ShapeOK
  have hF := doFills_frame tbl m.fills
    (setLen m n (bumpClear m (heapWrites (chooseArg arg (preReads tbl m.reads s)).2 m.writes
      (chooseArg arg (preReads tbl m.reads s)).1)))
  rw [hF.2.1, hF.2.2.1]
  have hW := heapWrites_ver (chooseArg arg (preReads tbl m.reads s)).2 m.writes
    (chooseArg arg (preReads tbl m.reads s)).1
  have hA := chooseArg_ver arg (preReads tbl m.reads s)
  have hP := preReads_frame tbl m.reads s
  have h0 : (bumpClear m (heapWrites (chooseArg arg (preReads tbl m.reads s)).2 m.writes
      (chooseArg arg (preReads tbl m.reads s)).1)).npts =
      (bumpClear m (heapWrites (chooseArg arg (preReads tbl m.reads s)).2 m.writes
      (chooseArg arg (preReads tbl m.reads s)).1)).len := by
    simp only [bumpClear]
    rw [hW.2.2.2, hW.2.2.1, hA.2.2.2, hA.2.2.1, hP.2.2.1, hP.2.1]
    exact hs
  unfold setLen
  split
  · rfl
  · exact h0
  · rename_i h; exact absurd h hm

theorem shape_step (tbl : CacheTable) (h : NptsOK tbl) (s : Obj) (hs : ShapeOK s) (op : Op) :
    ShapeOK (step tbl s op).1 := by
  cases op with
  | mutate row arg n =>
    simp only [step]
    split
    · rename_i m hm
      have : (m.npts != .notUpdated) = true :=
        List.all_eq_true.mp h m (List.mem_of_find?_eq_some hm)
      exact shape_applyRow tbl m (by simpa using this) arg n s hs
    · exact hs
  | read q =>
    have hF := read_frame tbl s q
    simp only [step, ShapeOK]
    rw [hF.2.1, hF.2.2.1]; exact hs
  | callerWrite k =>
    simp only [step, callerWrite]
    split <;> exact hs

theorem shape_run (tbl : CacheTable) (h : NptsOK tbl) (ops : List Op) (s : Obj) (hs : ShapeOK s) :
    ShapeOK (run tbl s ops) := by
  induction ops generalizing s with
  | nil => exact hs
  | cons op ops ih => exact ih _ (shape_step tbl h s hs op)

theorem shape_init (tbl : CacheTable) (h : NptsOK tbl) (n0 : Nat) : ShapeOK (init tbl n0) := by
  unfold init
  split
  · rename_i m hm
    have : (m.npts != .notUpdated) = true :=
      List.all_eq_true.mp h m (List.mem_of_find?_eq_some hm)
    exact shape_applyRow tbl m (by simpa using this) none n0 blank rfl
  · rfl

end EqsigVerif.Model.SignalSM
