import EqsigVerif.Model.SignalSM
import EqsigVerif.GenGolden.CacheTable
/-!
Validation runner for `Model/SignalSM.lean` (used by `validate.py`).

stdin, one request per line:   `<variant>|<op names…>|<quantities…>`
stdout, one line per request:  `ok|<q>:<T/F> …|alias:<T/F>|rtalias:<T/F>|sfalias:<T/F>|content:<c1>,<c2>,…`  or  `bad|<msg>`
(`content`: how often the k-th array the caller passed has been written, by the caller or through the object)

The history `<op names>` (syntax of `parseOp`) is run on a new object (`init tbl 64`); then every listed
quantity is read *on the resulting state* (the model is pure, so this is the read on a copy) and the model's
freshness prediction is printed; `alias` = `_values` shared with a caller-held array, `rtalias` /`sfalias` the
same for `_response_times` / `_smooth_fa_freqs`.

variants (`;`-separated list of corruptions applied to the golden table):
  golden | drop:<row>:<guard> | dropall:<guard> | store:<row>:<input>:<copy|reference|inplace> | nonpts:<row>
  | dropwrite:<row>:<input>:<copy|reference|inplace>
-/
open EqsigVerif.Model.SignalSM

def parseStore : String → Except String Store
  | "copy" => pure .copy | "reference" => pure .reference | "inplace" => pure .inplace
  | s => throw s!"bad store {s}"

def dropWrite (tbl : CacheTable) (row inp : String) (st : Store) : CacheTable :=
  { tbl with methods := tbl.methods.map fun m =>
      if m.name == row then { m with writes := m.writes.filter fun w => !(w.input == inp && w.store == st) } else m }

def applyVariant (tbl : CacheTable) (v : String) : Except String CacheTable :=
  match v.splitOn ":" with
  | ["golden"] => pure tbl
  | ["drop", row, g] => pure (tbl.dropClear row g)
  | ["dropall", g] => pure (tbl.dropClearEverywhere g)
  | ["store", row, inp, st] => do pure (tbl.setStore row inp (← parseStore st))
  | ["dropwrite", row, inp, st] => do pure (dropWrite tbl row inp (← parseStore st))
  | ["nonpts", row] => pure (tbl.dropNpts row)
  | _ => throw s!"bad variant {v}"

def words (s : String) : List String := (s.splitOn " ").filter (· != "")

def handle (line : String) : Except String String := do
  match line.splitOn "|" with
  | [variant, ops, qs] =>
    let tbl ← (variant.splitOn ";").foldlM applyVariant EqsigVerif.GenGolden.cacheTable
    let (s, _) ← runNamed tbl (init tbl defaultLen) (words ops)
    let preds ← (words qs).mapM fun q =>
      if (findQ tbl q).isSome then
        let r := step tbl s (.read q)
        match r.2 with
        | some o => pure s!"{q}:{if isFresh tbl r.1 o then "T" else "F"}"
        | none => throw "no observation"
      else throw s!"unknown quantity {q}"
    let al (inp : String) := if s.held.contains (s.ident inp) then "T" else "F"
    let contents := ",".intercalate (s.held.reverse.map fun k => toString (s.content k))
    pure s!"ok|{" ".intercalate preds}|alias:{al valuesInput}|rtalias:{al "_response_times"}|sfalias:{al "_smooth_fa_freqs"}|content:{contents}"
  | _ => throw "expected 3 fields"

partial def loop (h : IO.FS.Stream) (out : IO.FS.Stream) : IO Unit := do
  let line ← h.getLine
  if line.isEmpty then return
  let line := (line.takeWhile (fun c => c != (Char.ofNat 10) && c != (Char.ofNat 13))).toString
  match handle line with
  | .ok r => out.putStrLn r
  | .error e => out.putStrLn s!"bad|{e}"
  loop h out

def main : IO Unit := do
  loop (← IO.getStdin) (← IO.getStdout)
