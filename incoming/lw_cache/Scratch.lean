import EqsigVerif.Handlers.SignalSM
/-!
Validation runner for `Model/SignalSM.lean` (used by `validate.py`); a thin stdin/stdout wrapper around
`Handlers.SignalSM.historyReport` (the same code the native driver serves as `cache_history`).

stdin, one request per line:   `<variant>|<op names…>|<quantities…>`
stdout, one line per request:  `ok|<q>:<T/F> …|alias:<T/F>|rtalias:<T/F>|sfalias:<T/F>|content:<c1>,<c2>,…`  or `bad|<msg>`

The history `<op names>` (syntax of `parseOp`) is run on a new object (`init tbl 64`); then every listed
quantity is read on the resulting state and the model's freshness prediction is printed; `alias` = `_values`
shared with a caller-held array, `rtalias`/`sfalias` the same for `_response_times`/`_smooth_fa_freqs`;
`content`: how often the k-th array the caller passed has been written (by the caller or through the object).
`<variant>` = `;`-separated corruptions of the golden table (see `Handlers.SignalSM.applyVariant`).
-/
open EqsigVerif.Model.SignalSM EqsigVerif.Handlers.SignalSM

def words (s : String) : List String := (s.splitOn " ").filter (· != "")

def handle (line : String) : Except String String := do
  match line.splitOn "|" with
  | [variant, ops, qs] =>
    let tbl ← (variant.splitOn ";").foldlM applyVariant EqsigVerif.GenGolden.cacheTable
    match ← historyReport tbl (words ops) (words qs) with
    | [preds, [a, r, f], content] =>
      pure s!"ok|{" ".intercalate preds}|alias:{a}|rtalias:{r}|sfalias:{f}|content:{",".intercalate content}"
    | _ => throw "unexpected report"
  | _ => throw "expected 3 fields"

partial def loop (h : IO.FS.Stream) (out : IO.FS.Stream) : IO Unit := do
  let line ← h.getLine
  if line.isEmpty then return
  let line := (line.takeWhile (fun c => c != (Char.ofNat 10) && c != (Char.ofNat 13))).toString
  match handle line with
  | .ok r => out.putStrLn r
  | .error e => out.putStrLn s!"bad|{e}"
  loop h out

def main : IO Unit := do
  loop (← IO.getStdin) (← IO.getStdout)
