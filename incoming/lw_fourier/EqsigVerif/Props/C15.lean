import EqsigVerif.Model.Stockwell
import EqsigVerif.Lemmas.Cplx
import EqsigVerif.Lemmas.CplxC
import EqsigVerif.Lemmas.Stockwell
/-!
# C15 — Stockwell transform: definition, Fourier marginal (and inverse)

Model: `Model/Stockwell.lean` instantiated at Mathlib's `ℝ`/`ℂ` (`CxLike ℝ ℂ`), twiddles
`twC N m = e^{-2πi m/N}`, `Real.exp`, `Real.pi`.  `np.fft.fft/ifft` and `scipy.fftpack.fft/ifft` are the
defining sums (external assumption **FftIsDft**, DESIGN §3.3).
Notation: `n = len(acc)`, `N = 2⌊n/2⌋`, `X = dft twC acc N` (the spectrum of the record truncated to
`N` samples), `S` the result; row `r` of `S` belongs to harmonic `k = N/2 − r`.
-/
set_option linter.unusedSectionVars false
set_option linter.unusedVariables false
namespace EqsigVerif.Props.C15
open EqsigVerif EqsigVerif.Cplx EqsigVerif.Wire EqsigVerif.Model.Stockwell Finset Complex

/-! ## C15.a -/

/-- **C15.a** for a record of length `n ≥ 2` the transform succeeds and is an `(N/2) × N` array,
`N = 2⌊n/2⌋`; row `r` is the inverse DFT of the windowed, shifted spectrum of harmonic `k = N/2 − r`
(row 0 = Nyquist, last row = first harmonic).  Holds for every twiddle table / `exp` / `π`
(so also for the `Float` instantiation's structure). -/
theorem shape (tw : ℕ → ℕ → ℂ) (exp : ℝ → ℝ) (pi : ℝ) (acc : List ℂ) (h : 2 ≤ acc.length) :
    ∃ S, transform tw exp pi acc = .ok S ∧ S.length = acc.length / 2 ∧
      (∀ row ∈ S, row.length = 2 * (acc.length / 2)) ∧
      ∀ r (hr : r < S.length), S[r] =
        idft tw (prodRow exp pi (dft tw acc (2 * (acc.length / 2))) (acc.length / 2)
          (acc.length / 2 - r)) (2 * (acc.length / 2)) := by
  refine ⟨_, transform_eq tw exp pi acc h, by simp, ?_, ?_⟩
  · intro row hrow
    obtain ⟨r, _, rfl⟩ := List.mem_map.mp hrow
    simp
  · intro r hr
    simp

/-- **C15.a** records shorter than 2 samples raise (`ValueError` from the FFT with `n = 0`). -/
theorem short_record_raises (tw : ℕ → ℕ → ℂ) (exp : ℝ → ℝ) (pi : ℝ) (acc : List ℂ)
    (h : acc.length < 2) : transform tw exp pi acc = .error .ValueError := by
  have : 2 * (acc.length / 2) = 0 := by omega
  simp [transform, this]

example : (2 : ℕ) ≤ ([1, 2, 3, 4, 5] : List ℂ).length := by decide

/-! ## C15.c -/

/-- **C15.c** both implementations (`transform`, `transform_w_scipy_fft`) have the same model. -/
theorem implementations_agree (tw : ℕ → ℕ → ℂ) (exp : ℝ → ℝ) (pi : ℝ) (acc : List ℂ) :
    transformWScipyFft tw exp pi acc = transform tw exp pi acc := rfl

/-- **C15.c** the transform is additive in the record … -/
theorem transform_add (tw : ℕ → ℕ → ℂ) (exp : ℝ → ℝ) (pi : ℝ) (x y : List ℂ)
    (hxy : x.length = y.length) (h : 2 ≤ x.length) :
    ∃ Sx Sy, transform tw exp pi x = .ok Sx ∧ transform tw exp pi y = .ok Sy ∧
      transform tw exp pi (List.zipWith (· + ·) x y)
        = .ok (List.zipWith (List.zipWith (· + ·)) Sx Sy) := by
  have hl : (List.zipWith (· + ·) x y).length = x.length := by simp [hxy]
  refine ⟨_, _, transform_eq tw exp pi x h, transform_eq tw exp pi y (hxy ▸ h), ?_⟩
  rw [transform_eq tw exp pi _ (by rw [hl]; exact h), hl, ← hxy, zipWith_map_range]
  congr 1
  apply List.map_congr_left
  intro r _
  rw [dft_add tw x y _ hxy, prodRow_add _ _ _ _ (by simp), idft_add _ _ _ _ (by simp)]

/-- **C15.c** … and homogeneous for real factors `c` (`conj c = c`). -/
theorem transform_smul (tw : ℕ → ℕ → ℂ) (exp : ℝ → ℝ) (pi : ℝ) (c : ℂ) (hc : starRingEnd ℂ c = c)
    (x : List ℂ) (h : 2 ≤ x.length) :
    ∃ S, transform tw exp pi x = .ok S ∧
      transform tw exp pi (x.map (c * ·)) = .ok (S.map (fun row => row.map (c * ·))) := by
  refine ⟨_, transform_eq tw exp pi x h, ?_⟩
  rw [transform_eq tw exp pi _ (by simpa using h), List.length_map, List.map_map]
  congr 1
  apply List.map_congr_left
  intro r _
  simp only [Function.comp]
  rw [dft_smul, prodRow_smul _ _ c hc, idft_smul]

example : starRingEnd ℂ ((3 : ℝ) : ℂ) = ((3 : ℝ) : ℂ) := Complex.conj_ofReal 3

/-! ## C15.b -/

/-- **C15.b** (core, `T` + **FftIsDft**) code-shaped definition: for a REAL record, every cell is
`S[r][j] = (1/N) Σ_{m<N} X[(m−k) mod N] · e^{−2π² m̃²/k²} · e^{2πi mj/N}`, `k = N/2 − r`, `m̃` the signed
index (`m` for `m ≤ N/2`, `m − N` above) — the Toeplitz rows `conj X[k−m]` (`m ≤ k`), `X[m−k]` (`m > k`)
are the cyclic shift of the spectrum by Hermitian symmetry. -/
theorem definition_code_shaped (x : List ℂ) (h : 2 ≤ x.length)
    (hx : ∀ j, starRingEnd ℂ (x.getD j 0) = x.getD j 0) :
    ∃ S, transform twC Real.exp Real.pi x = .ok S ∧
      ∀ r, r < x.length / 2 → ∀ j, j < 2 * (x.length / 2) →
        (S.getD r []).getD j 0 =
          (∑ m ∈ range (2 * (x.length / 2)),
            (dft twC x (2 * (x.length / 2))).getD
                ((m + 2 * (x.length / 2) - (x.length / 2 - r)) % (2 * (x.length / 2))) 0 *
              (Real.exp (-(2 * Real.pi ^ 2 * signedIdx (x.length / 2) m ^ 2
                / ((x.length / 2 - r : ℕ) : ℝ) ^ 2)) : ℝ) *
              cexp (2 * Real.pi * I * m * j / (2 * (x.length / 2) : ℕ)))
            / (2 * (x.length / 2) : ℕ) := by
  refine ⟨_, transform_eq twC Real.exp Real.pi x h, ?_⟩
  intro r hr j hj
  have hnd : 1 ≤ x.length / 2 := by omega
  rw [getD_map_range _ _ _ hr, idftC_getD _ _ _ hj]
  congr 1
  apply Finset.sum_congr rfl
  intro m hm
  have hm' : m < 2 * (x.length / 2) := Finset.mem_range.mp hm
  rw [prodRow_getD _ _ _ _ _ _ hm', shiftEntry_of_real x _ _ m (by omega) (by omega) hm' hx,
    gaussEntry_real _ _ m hnd (by omega) hm', conj_omega_pow]
  congr 2
  push_cast
  ring

/-! ## C15.d -/

/-- **C15.d** Fourier marginal: summing row `r` over time gives the conjugate Fourier coefficient of
its harmonic, `Σ_j S[r][j] = conj X[k]`, `k = N/2 − r` (only the `m = 0` term survives
`Σ_j e^{2πi mj/N} = N·[m ≡ 0]`, and the window is 1 at `m = 0`).  No realness assumption is needed. -/
theorem marginal (x : List ℂ) (h : 2 ≤ x.length) :
    ∃ S, transform twC Real.exp Real.pi x = .ok S ∧
      ∀ r, r < x.length / 2 →
        ∑ j ∈ range (2 * (x.length / 2)), (S.getD r []).getD j 0
          = starRingEnd ℂ ((dft twC x (2 * (x.length / 2))).getD (x.length / 2 - r) 0) := by
  refine ⟨_, transform_eq twC Real.exp Real.pi x h, ?_⟩
  intro r hr
  have hN : 2 * (x.length / 2) ≠ 0 := by omega
  have hNc : ((2 * (x.length / 2) : ℕ) : ℂ) ≠ 0 := by exact_mod_cast hN
  rw [getD_map_range _ _ _ hr]
  set P := prodRow Real.exp Real.pi (dft twC x (2 * (x.length / 2))) (x.length / 2) (x.length / 2 - r)
    with hP
  have h1 : ∀ j ∈ range (2 * (x.length / 2)), (idft twC P (2 * (x.length / 2))).getD j 0
      = (∑ m ∈ range (2 * (x.length / 2)), P.getD m 0 * starRingEnd ℂ (omega (2 * (x.length / 2)) ^ (j * m)))
        / (2 * (x.length / 2) : ℕ) := fun j hj => idftC_getD P _ j (Finset.mem_range.mp hj)
  rw [Finset.sum_congr rfl h1, ← Finset.sum_div, Finset.sum_comm]
  have h2 : ∀ m ∈ range (2 * (x.length / 2)),
      ∑ j ∈ range (2 * (x.length / 2)), P.getD m 0 * starRingEnd ℂ (omega (2 * (x.length / 2)) ^ (j * m))
        = if m = 0 then P.getD 0 0 * (2 * (x.length / 2) : ℕ) else 0 := by
    intro m hm
    rw [← Finset.mul_sum, sum_conj_omega_pow _ m hN (Finset.mem_range.mp hm)]
    split
    · subst ‹m = 0›; rfl
    · simp
  rw [Finset.sum_congr rfl h2, Finset.sum_ite_eq' (range (2 * (x.length / 2))) 0]
  simp only [Finset.mem_range, Nat.pos_of_ne_zero hN, if_true]
  rw [mul_div_assoc, div_self hNc, mul_one, hP, prodRow_getD _ _ _ _ _ _ (Nat.pos_of_ne_zero hN),
    gaussEntry_zero]
  simp [shiftEntry]

example : (2 : ℕ) ≤ ([1, -2, 3, 5, 4] : List ℂ).length := by decide

end EqsigVerif.Props.C15
