"""Differential validation of Model/Frequency.lean and Model/Stockwell.lean against the real eqsig
(/tmp/repo_fixed).  Run:
  cd /tmp/repo_fixed && PYTHONPATH=/tmp/repo_fixed /venv/bin/python /tmp/lw_fourier/scratch/validate.py
Needs the native driver built in the private copy:  (cd /tmp/lw_fourier && lake build eqsig_driver)
with `Handlers/All.lean` listing `Fourier.handlers`.
"""
import os, struct, subprocess, sys, warnings, itertools
from fractions import Fraction
import numpy as np
warnings.simplefilter("ignore")
import eqsig
from eqsig.fns import frequency as fq
from eqsig import stockwell as sw
import eqsig.im

DRIVER = os.environ.get("EQSIG_DRIVER", "/tmp/lw_fourier/.lake/build/bin/eqsig_driver")  # any eqsig_driver whose Handlers/All.lean lists Fourier.handlers
REL = 1e-9

def fb(x):  # float -> wire token
    return "b%d" % struct.unpack("<Q", struct.pack("<d", float(x)))[0]
def bf(tok):
    assert tok[0] == "b", tok
    return struct.unpack("<d", struct.pack("<Q", int(tok[1:])))[0]
def fl(xs): return " ".join(fb(x) for x in xs)
def cx(zs): return " ".join(fb(v) for z in zs for v in (complex(z).real, complex(z).imag))
def q(x):
    f = Fraction(float(x)); return "%d/%d" % (f.numerator, f.denominator) if f.denominator != 1 else "%d" % f.numerator
def ql(xs): return " ".join(q(x) for x in xs)
def uq(tok): return Fraction(tok)
def opt(n): return "-" if n is None else str(n)

class Batch:
    def __init__(self):
        self.reqs = []; self.checks = []
    def add(self, line, check, label):
        self.reqs.append(line); self.checks.append((check, label))
    def run(self):
        p = subprocess.run([DRIVER], input="\n".join(self.reqs) + "\n", capture_output=True, text=True)
        outs = p.stdout.split("\n")
        if outs and outs[-1] == "": outs = outs[:-1]
        assert len(outs) == len(self.reqs), (len(outs), len(self.reqs), p.stderr[:500])
        nfail = 0; worst = {}
        for (check, label), line, req in zip(self.checks, outs, self.reqs):
            parts = line.split("|")
            try:
                gap = check(parts)
                grp = label.split(":")[0]
                if gap is not None:
                    worst[grp] = max(worst.get(grp, 0.0), gap)
                else:
                    worst.setdefault(grp, 0.0)
            except Exception as e:
                nfail += 1
                if nfail <= 15:
                    print("FAIL", label, type(e).__name__, str(e)[:300], "| resp:", line[:200])
        return len(self.reqs), nfail, worst

def pyres(f):
    try:
        return ("ok", f())
    except Exception as e:
        return ("err", type(e).__name__)

def expect_err(kind):
    def chk(parts):
        assert parts[0] == "err" and parts[1] == kind, (parts[:2], kind)
        return None
    return chk

def toks(s): return [t for t in s.split(" ") if t]
def floats_of(s): return np.array([bf(t) for t in toks(s)], dtype=float)
def cx_of(s):
    a = floats_of(s); return a[0::2] + 1j * a[1::2]

def close(model, impl, scale=None):
    model = np.asarray(model); impl = np.asarray(impl)
    assert model.shape == impl.shape, ("shape", model.shape, impl.shape)
    if model.size == 0: return 0.0
    sc = max(np.max(np.abs(impl)), np.max(np.abs(model))) if scale is None else scale
    if sc == 0: sc = 1.0
    gap = float(np.max(np.abs(model - impl)) / sc)
    assert gap <= REL, ("gap", gap)
    return gap

def exact_bits(model, impl):
    model = np.asarray(model, dtype=float); impl = np.asarray(impl, dtype=float)
    assert model.shape == impl.shape, ("shape", model.shape, impl.shape)
    assert model.tobytes() == impl.tobytes(), ("bits differ", model[:5], impl[:5])
    return 0.0

rng = np.random.default_rng(20260926)
B = Batch()

# ------------------------------------------------------------------ C06: N, points
for npts in list(range(1, 130)) + [255, 256, 257, 511, 512, 513, 1023, 1024, 1025, 4684]:
    for p2 in range(0, 4):
        N = 2 ** int(np.ceil(np.log2(npts)) + p2)
        def chk(parts, N=N, npts=npts):
            assert parts[0] == "ok"
            assert int(parts[1]) == N and int(parts[2]) == int(N / 2), (parts, N)
            assert int(parts[3]) == 2 ** int(np.ceil(np.log2(npts)))
            return None
        B.add(f"nfactor|{npts}|{p2}|-", chk, "nfactor")
    for n in (1, 2, 3, npts, npts + 1, 2 * npts + 1):
        def chk(parts, n=n):
            assert parts[0] == "ok" and int(parts[1]) == n and int(parts[2]) == int(n / 2), parts
            return None
        B.add(f"nfactor|{npts}|0|{n}", chk, "nfactor")
B.add("nfactor|5|0|0", expect_err("ValueError"), "nfactor")

# ------------------------------------------------------------------ C06: spectra
def records(npts):
    yield rng.standard_normal(npts)
    yield np.round(rng.standard_normal(npts) * 8) / 4.0          # dyadic
    imp = np.zeros(npts); imp[rng.integers(0, npts)] = 1.0; yield imp
    t = np.arange(npts); yield np.sin(2 * np.pi * t * 3 / max(npts, 4)) + 0.25

def fa_check(impl):
    def chk(parts):
        if impl[0] == "err":
            assert parts[0] == "err" and parts[1] == impl[1], (parts[:2], impl)
            return None
        assert parts[0] == "ok", parts[:2]
        fas, fr = impl[1]
        g = close(cx_of(parts[1]), fas)
        exact_bits(floats_of(parts[2]), fr)          # frequency grid: bit-exact
        return g
    return chk

dts = [0.01, 0.005, 0.02, 0.5, 1.0, 0.0078125, 0.3]
for npts in range(2, 41):
    for ir, v in enumerate(records(npts)):
        dt = dts[(npts + ir) % len(dts)]
        ns = [None, npts, npts + 1, npts - 1, 2 * npts, 2 * npts + 3, max(1, npts // 2), 1, 2, 3, 0] if ir < 2 else [None]
        p2s = [0, 1, 2] if ir < 2 else [0]
        for p2 in p2s:
            for n in (ns if p2 == 0 else [None]):
                def impl_signal(v=v, dt=dt, p2=p2, n=n):
                    s = eqsig.Signal(v.copy(), dt); s.gen_fa_spectrum(p2_plus=p2, n=n)
                    return (s.fa_spectrum.copy(), s.fa_freqs.copy())
                B.add(f"fa_signal|{p2}|{opt(n)}|{fb(dt)}|{fl(v)}", fa_check(pyres(impl_signal)), "fa_signal")
                # AccSignal: same method
                if ir == 0 and p2 == 0 and n in (None, npts + 1):
                    def impl_acc(v=v, dt=dt, p2=p2, n=n):
                        s = eqsig.AccSignal(v.copy(), dt); s.gen_fa_spectrum(p2_plus=p2, n=n)
                        return (s.fa_spectrum.copy(), s.fa_freqs.copy())
                    B.add(f"fa_signal|{p2}|{opt(n)}|{fb(dt)}|{fl(v)}", fa_check(pyres(impl_acc)), "fa_signal_acc")
                # calc_fa_spectrum(n, p2_plus)
                for (cn, cp) in ([(n, None), (n, p2)] if n is not None else [(None, p2), (None, None)]):
                    def impl_calc(v=v, dt=dt, cn=cn, cp=cp):
                        return fq.calc_fa_spectrum(eqsig.Signal(v.copy(), dt), n=cn, p2_plus=cp)
                    B.add(f"fa_calc|{opt(cn)}|{opt(cp)}|{fb(dt)}|{fl(v)}", fa_check(pyres(impl_calc)), "fa_calc")
        # default property access and generate_fa_spectrum padded / unpadded
        def impl_prop(v=v, dt=dt):
            s = eqsig.Signal(v.copy(), dt); return (s.fa_spectrum.copy(), s.fa_freqs.copy())
        B.add(f"fa_signal|0|-|{fb(dt)}|{fl(v)}", fa_check(pyres(impl_prop)), "fa_property")
        for npad in (True, False):
            def impl_gen(v=v, dt=dt, npad=npad):
                return fq.generate_fa_spectrum(eqsig.Signal(v.copy(), dt), n_pad=npad)
            B.add(f"fa_generate|{'T' if npad else 'F'}|{fb(dt)}|{fl(v)}", fa_check(pyres(impl_gen)), "fa_generate")
# integer dtype record, length-1 record
vi = np.array([3, -1, 4, 1, -5, 9, 2], dtype=int)
B.add(f"fa_signal|1|-|{fb(0.25)}|{fl(vi)}", fa_check(pyres(lambda: (lambda s: (s.fa_spectrum, s.fa_freqs))(eqsig.Signal(vi, 0.25)) if False else
      (lambda s: (s.gen_fa_spectrum(p2_plus=1), (s.fa_spectrum, s.fa_freqs))[1])(eqsig.Signal(vi, 0.25)))), "fa_signal_int")
B.add(f"fa_signal|0|-|{fb(0.5)}|{fl([1.0])}", fa_check(pyres(lambda: (lambda s: (s.fa_spectrum, s.fa_freqs))(eqsig.Signal(np.array([1.0]), 0.5)))), "fa_len1")
B.add(f"fa_generate|F|{fb(0.5)}|{fl([1.0])}", fa_check(pyres(lambda: fq.generate_fa_spectrum(eqsig.Signal(np.array([1.0]), 0.5), n_pad=False))), "fa_len1")

# ------------------------------------------------------------------ C06: fas2values / fas2signal
def f2v_check(impl):
    def chk(parts):
        if impl[0] == "err":
            assert parts[0] == "err" and parts[1] == impl[1], (parts[:2], impl); return None
        assert parts[0] == "ok", parts[:2]
        return close(cx_of(parts[1]), impl[1])
    return chk
for P in list(range(0, 21)) + [32, 37]:
    for rep in range(2):
        fas = rng.standard_normal(P) + 1j * rng.standard_normal(P)
        dt = dts[(P + rep) % len(dts)]
        B.add(f"fas2values|{fb(dt)}|{cx(fas)}", f2v_check(pyres(lambda fas=fas, dt=dt: fq.fas2values(fas, dt))), "fas2values")
        if P > 0:
            B.add(f"fas2values|{fb(dt)}|{cx(fas)}", f2v_check(pyres(lambda fas=fas, dt=dt: fq.fas2signal(fas, dt).values)), "fas2signal")
# round trip from real spectra (the N in {14,18,28,36} cases of the old length bug included)
for N in [4, 6, 8, 14, 16, 18, 28, 36]:
    v = rng.standard_normal(N); dt = 0.01
    fas, _ = fq.calc_fa_spectrum(eqsig.Signal(v, dt), n=N)
    B.add(f"fas2values|{fb(dt)}|{cx(fas)}", f2v_check(pyres(lambda fas=fas, dt=dt: fq.fas2values(fas, dt))), "fas2values_rt")

# ------------------------------------------------------------------ C06: max_fa_period
def mfp_check(impl):
    def chk(parts):
        if impl[0] == "err":
            assert parts[0] == "err" and parts[1] == impl[1], (parts[:2], impl); return None
        assert parts[0] == "ok", parts[:2]
        if np.isinf(impl[1]):
            assert parts[1] == "inf", parts
        else:
            exact_bits([bf(parts[1])], [impl[1]])
        return None
    return chk
for npts in list(range(1, 41)) + [64, 100]:
    for rep in range(3):
        v = rng.standard_normal(npts) + (2.0 if rep == 2 else 0.0)      # rep 2: dominant mean -> inf
        if rep == 1 and npts >= 8:
            t = np.arange(npts); v = np.cos(2 * np.pi * t * 2 / npts + 0.3) + 0.01 * v
        dt = dts[(npts + rep) % len(dts)]
        s = eqsig.AccSignal(v.copy(), dt)
        fas, fr = s.fa_spectrum.copy(), s.fa_freqs.copy()
        if len(fas) > 1:
            a = np.sort(np.abs(fas))[::-1]
            if a[0] - a[1] < 1e-9 * a[0]: continue         # near tie: decided by rounding
        B.add(f"max_fa_period|{cx(fas)}|{fl(fr)}", mfp_check(pyres(lambda s=s: eqsig.im.max_fa_period(s))), "max_fa_period")

# ------------------------------------------------------------------ C07: smoothing
def smooth_parts(fa_freqs, smooth, band):
    """the code's own intermediate arrays (same expressions)"""
    f = np.asarray(fa_freqs, dtype=float)
    if f[0] == 0: f = f[1:]
    sm = f if smooth is None else np.asarray(smooth, dtype=float)
    amp = band * np.log10(f[:, np.newaxis] / sm[np.newaxis, :])
    raw = (np.sin(amp) / amp) ** 4
    return f, sm, amp, raw

def qclose(parts, impl, tol=1e-12):
    assert parts[0] == "ok", parts[:2]
    model = [uq(t) for t in toks(parts[1])]
    assert len(model) == len(impl), ("len", len(model), len(impl))
    if not model: return 0.0
    sc = max(max(abs(float(m)) for m in model), float(np.max(np.abs(impl))), 1e-300)
    gap = max(abs(float(m - Fraction(float(i)))) for m, i in zip(model, impl)) / sc
    assert gap <= tol, ("gap", gap)
    return gap

def spectra(n):
    yield np.abs(rng.standard_normal(n)) + 0.1
    yield np.full(n, 2.5)
    sp = np.full(n, 0.0); sp[n // 2] = 3.0; yield sp
    yield rng.standard_normal(n)                      # signed: abs() is taken by the code
    yield np.round(rng.standard_normal(n) * 4) / 2

for n in [2, 3, 4, 5, 8, 13, 16]:
    for zero_bin in (True, False):
        fr = np.arange(n) * 0.25 if zero_bin else (np.arange(n) + 1) * 0.5
        m = n - 1 if zero_bin else n
        targets = [None, np.array([0.3, 0.77, 1.9]), fr[1:3].copy() if n > 3 else fr[-1:].copy(),
                   np.array([0.01, 100.0]), np.logspace(-1, 1, 7)]
        for band in (5, 20, 40, 100):
            for ia, A in enumerate(spectra(n)):
                for it, sm in enumerate(targets):
                    if (ia + it + band) % 3 and not (ia == 1): continue
                    f, smv, amp, raw = smooth_parts(fr, sm, band)
                    rawt = np.where(np.isnan(raw), 0.0, raw)
                    impl = fq.calc_smooth_fa_spectrum(fr, A, sm, band=band)
                    # exact structural model on the impl's own raw weights (column-major = transpose)
                    B.add(f"smooth_core_q|{ql(fr)}|{ql(A)}|{m}|{ql(amp.T.flatten())}|{ql(rawt.T.flatten())}",
                          (lambda parts, impl=impl: qclose(parts, impl)), "smooth_core_q")
                    # Float twin
                    B.add(f"smooth_f|{fb(band)}|{fl(fr)}|{fl(A)}|{'-' if sm is None else fl(sm)}",
                          (lambda parts, impl=impl: (close(floats_of(parts[1]) if parts[0] == 'ok' else None, impl))), "smooth_f")
                    if ia == 0:
                        M = fq.calc_smoothing_matrix_konno_1998(fr, sm, band=band)
                        B.add(f"smooth_matrix_f|{fb(band)}|{fl(fr)}|{'-' if sm is None else fl(sm)}",
                              (lambda parts, M=M: close(floats_of(parts[1]), M.T.flatten())), "smooth_matrix_f")
                        B.add(f"smooth_matrix_q|{m}|{ql(amp.T.flatten())}|{ql(rawt.T.flatten())}",
                              (lambda parts, M=M: qclose(parts, M.T.flatten())), "smooth_matrix_q")
                        class _S: pass
                        o = _S(); o.fa_spectrum = A
                        if M.shape[0] == n - 1:
                            implm = fq.calc_smooth_fa_spectrum_w_custom_matrix(o, M)
                            B.add(f"smooth_w_matrix_q|{ql(A)}|{n-1}|{ql(M.T.flatten())}",
                                  (lambda parts, implm=implm: qclose(parts, implm)), "smooth_w_matrix_q")
# object level: Signal.gen_smooth_fa_spectrum / smooth_fa_spectrum
for npts in (16, 33, 50):
    v = rng.standard_normal(npts); dt = 0.01
    s = eqsig.AccSignal(v, dt)
    for sm, band in [(None, 40), (np.logspace(0, 1.5, 9), 40), (np.logspace(0, 1.5, 5), 20)]:
        if sm is None:
            impl = s.smooth_fa_spectrum.copy(); smv = s.smooth_fa_freqs
        else:
            s.gen_smooth_fa_spectrum(smooth_fa_freqs=sm, band=band); impl = s.smooth_fa_spectrum.copy(); smv = sm
        B.add(f"smooth_f|{fb(band)}|{fl(s.fa_freqs)}|{fl(np.abs(s.fa_spectrum))}|{fl(smv)}",
              (lambda parts, impl=impl: close(floats_of(parts[1]), impl)), "smooth_signal")
# errors
B.add("smooth_core_q|||0||", expect_err("IndexError"), "smooth_err")
B.add(f"smooth_f|{fb(40)}|||-", expect_err("IndexError"), "smooth_err")

# ------------------------------------------------------------------ C07: bandwidth
class FakeSig:
    def __init__(self, sm, fr): self.smooth_fa_spectrum = sm; self.smooth_fa_frequencies = fr
def bw_check(impl, n_out):
    def chk(parts):
        if impl[0] == "err":
            assert parts[0] == "err" and parts[1] == impl[1], (parts[:2], impl); return None
        assert parts[0] == "ok", parts[:2]
        model = [uq(t) for t in toks(parts[1])]
        ref = list(impl[1]) if n_out > 1 else [impl[1]]
        assert [Fraction(float(x)) for x in ref] == model, (model, ref)
        return None
    return chk
for n in list(range(0, 9)) + [12, 20]:
    for rep in range(4):
        sm = np.round(np.abs(rng.standard_normal(n)) * 8) / 8
        if rep == 1 and n: sm[:] = sm[0]
        if rep == 2 and n > 2: sm[n // 2] = sm.max() + 1; sm[0] = sm[n // 2]      # tie of maxima
        if rep == 3: sm = -sm                                                      # non-positive spectrum
        fr = np.cumsum(np.round(np.abs(rng.standard_normal(n)) * 4 + 1) / 4)
        for ratio in (0.707, 0.5, 0.999, 1.0, 0.0, 1.5):
            fs = FakeSig(sm, fr)
            B.add(f"bandwidth_q|{q(ratio)}|{ql(sm)}|{ql(fr)}", bw_check(pyres(lambda fs=fs, ratio=ratio: eqsig.im.calc_bandwidth_freqs(fs, ratio=ratio)), 2), "bandwidth")
            B.add(f"bandwidth_fmin_q|{q(ratio)}|{ql(sm)}|{ql(fr)}", bw_check(pyres(lambda fs=fs, ratio=ratio: eqsig.im.calc_bandwidth_f_min(fs, ratio=ratio)), 1), "bandwidth")
            B.add(f"bandwidth_fmax_q|{q(ratio)}|{ql(sm)}|{ql(fr)}", bw_check(pyres(lambda fs=fs, ratio=ratio: eqsig.im.calc_bandwidth_f_max(fs, ratio=ratio)), 1), "bandwidth")
        for ratio in (15, 2, 1, 0.5):
            def chk(parts, impl=pyres(lambda sm=sm, ratio=ratio: fq.get_sig_array_indexes_range(sm, ratio=ratio))):
                if impl[0] == "err":
                    assert parts[0] == "err" and parts[1] == impl[1], (parts[:2], impl); return None
                assert parts[0] == "ok" and [int(t) for t in toks(parts[1])] == [int(impl[1][0]), int(impl[1][1])], (parts, impl)
                return None
            # exact only if max/ratio is exact in binary64: dyadic sm and ratio a power of two or 15 -> compare via Fraction of the float limit
            if ratio in (2, 1, 0.5) or n == 0:
                B.add(f"sig_idx_range_q|{q(ratio)}|{ql(sm)}", chk, "sig_idx_range")

# ------------------------------------------------------------------ C15: Stockwell
def mat_of(parts):
    nr, nc = int(parts[1]), int(parts[2]); z = cx_of(parts[3]); return z.reshape(nr, nc) if nr else z.reshape(0, nc)
def st_check(impl, xscale=0.0):
    def chk(parts):
        if impl[0] == "err":
            assert parts[0] == "err" and parts[1] == impl[1], (parts[:2], impl); return None
        assert parts[0] == "ok", parts[:2]
        # S is linear in x with norm O(1): gaps are measured against max(|S|, |x|)
        return close(mat_of(parts), impl[1], scale=max(float(np.max(np.abs(impl[1]))) if impl[1].size else 0.0, xscale))
    return chk
for nd2 in range(1, 14):
    g = sw.generate_gaussian(nd2)
    def chk(parts, g=g):
        assert parts[0] == "ok" and (int(parts[1]), int(parts[2])) == g.shape, (parts[:3], g.shape)
        return close(floats_of(parts[3]).reshape(g.shape), g)
    B.add(f"gaussian|{nd2}", chk, "gaussian")
for n in list(range(0, 25)) + [31, 32, 33, 48]:
    for ir, v in enumerate(records(n) if n else [np.zeros(0)]):
        if n < 4 and ir > 0: continue
        B.add(f"stockwell|{fl(v)}", st_check(pyres(lambda v=v: sw.transform(v.copy())), float(np.max(np.abs(v))) if n else 0.0), "stockwell")
        B.add(f"stockwell_scipy|{fl(v)}", st_check(pyres(lambda v=v: sw.transform_w_scipy_fft(v.copy())), float(np.max(np.abs(v))) if n else 0.0), "stockwell_scipy")
        if n >= 2:
            st = sw.transform(v.copy())
            impl = pyres(lambda st=st: sw.itransform(st))
            B.add(f"istockwell|{st.shape[1]}|{cx(st.flatten())}",
                  (lambda parts, impl=impl: close(floats_of(parts[1]), impl[1], scale=max(1.0, float(np.max(np.abs(impl[1])))))), "istockwell")
            for dt in (0.01, 0.5):
                implf = sw.get_max_tifq_vals_freq(st, dt)
                B.add(f"max_tifq_cx|{fb(dt)}|{st.shape[1]}|{cx(st.flatten())}",
                      (lambda parts, implf=implf: exact_bits(floats_of(parts[1]), implf)), "max_tifq_cx")
                implr = sw.get_max_tifq_vals_freq(np.abs(st), dt)
                B.add(f"max_tifq|{fb(dt)}|{st.shape[1]}|{fl(np.abs(st).flatten())}",
                      (lambda parts, implr=implr: exact_bits(floats_of(parts[1]), implr)), "max_tifq")
# itransform on arbitrary complex arrays (not only transforms)
for nr in range(1, 8):
    st = rng.standard_normal((nr, 2 * nr)) + 1j * rng.standard_normal((nr, 2 * nr))
    impl = pyres(lambda st=st: sw.itransform(st))
    B.add(f"istockwell|{st.shape[1]}|{cx(st.flatten())}", (lambda parts, impl=impl: close(floats_of(parts[1]), impl[1])), "istockwell_any")
B.add("istockwell|4|", expect_err("ValueError"), "istockwell_err")

n, nfail, worst = B.run()
print("requests:", n, "failures:", nfail)
for k in sorted(worst): print("  %-20s worst relative gap %.3e" % (k, worst[k]))
sys.exit(1 if nfail else 0)
