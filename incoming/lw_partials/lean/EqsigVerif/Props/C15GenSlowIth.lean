import EqsigVerif.Gen.StockwellFns2
import EqsigVerif.Props.C15Gen
import EqsigVerif.Lemmas.StockwellSlow
/-!
# C15 — `transform_slow(acc, ith)` for a GENERAL `ith` (closes the `_partial`-in-spirit of `Props/C15GenSlow.lean`, tw_rest2 NOTES §3)

`transform_slow` (`eqsig/stockwell.py`, regenerated as `Gen.StockwellFns2.transformSlow`) builds the same product rows
`aa = diag_con * gaussian` (`n_d2` rows of length `2·n_d2`) as `transform`, inverse-transforms only `aa[:-ith]` into
`upstock[:-ith]` of a zero array, and flips.  With `k = pyIdx n_d2 (−ith)` (the Python stop index of `[:-ith]`: `n_d2 − ith`
clipped to `[0, n_d2]` for `ith ≥ 1`, `0` for `ith = 0`, `min(−ith, n_d2)` for `ith < 0`):

  `transform_slow(acc, ith) = [zero row] * (n_d2 − k)  ++  transform(acc)[n_d2 − k:]`

i.e. for `1 ≤ ith`: the first `min(ith, n_d2)` rows are zero and the rows `ith..` are those of `transform(acc)`.
Proved about the GENERATED `transformSlow` and the model `Model.Stockwell.transform` (which `C15Gen.gen_transform` ties to the generated `transform`),
for every record with at least two samples, every twiddle table, `exp`, `π`.
-/
set_option linter.unusedSectionVars false
set_option linter.unusedVariables false
set_option linter.unusedSimpArgs false
namespace EqsigVerif.Props.C15
open EqsigVerif EqsigVerif.Cplx EqsigVerif.Wire EqsigVerif.Model.Stockwell EqsigVerif.Lemmas.StockwellSlow

/-- **`transform_slow(acc, ith)`, general `ith`** (record with at least two samples): with `n_d2 = len(acc) // 2` and
`k = pyIdx n_d2 (−ith)` (stop index of the Python slice `[:-ith]`), `transform(acc)` returns `full` (`n_d2` rows) and
`transform_slow(acc, ith)` returns `n_d2 − k` all-zero rows (length `2·n_d2`) followed by the rows `n_d2 − k ..` of `full`. -/
theorem gen_transformSlow_rows (tw : ℕ → ℕ → ℂ) (exp : ℝ → ℝ) (pi : ℝ) (acc : List ℂ) (ith : ℤ) (h : 2 * (acc.length / 2) ≠ 0) :
    ∃ full, transform tw exp pi acc = .ok full ∧ full.length = acc.length / 2 ∧
      Gen.StockwellFns2.transformSlow tw exp pi acc ith =
        .ok (List.replicate (acc.length / 2 - NpR.pyIdx (acc.length / 2) (-ith)) (List.replicate (2 * (acc.length / 2)) (0 : ℂ))
              ++ full.drop (acc.length / 2 - NpR.pyIdx (acc.length / 2) (-ith))) := by
  have hnd : 1 ≤ acc.length / 2 := by omega
  obtain ⟨P, hPdef⟩ : ∃ P, P = List.zipWith (List.zipWith (fun (d : ℂ) (g : ℝ) => d * CxLike.ofReal g))
      (Np.slice (toeplitz (((dft tw acc (2 * (acc.length / 2))).take (acc.length / 2 + 1)).map CxLike.conj)
        (dft tw acc (2 * (acc.length / 2)))) 1 (acc.length / 2 + 1)) (generateGaussian exp pi (acc.length / 2)) := ⟨_, rfl⟩
  have hP : P = (List.range (acc.length / 2)).map (fun i => (List.range (2 * (acc.length / 2))).map
      (fun m => shiftEntry (dft tw acc (2 * (acc.length / 2))) (i + 1) m * CxLike.ofReal (gaussEntry exp pi (acc.length / 2) (i + 1) m))) := by
    rw [hPdef, generateGaussian_eq exp pi _ hnd, toeplitz_slice_eq _ _ hnd (by simp), zipWith_map_range]
    simp only [zipWith_map_range]
  have hPlen : P.length = acc.length / 2 := by rw [hP]; simp
  have hrow : ∀ row ∈ P, row.length = 2 * (acc.length / 2) := by
    intro row hr
    rw [hP] at hr
    obtain ⟨i, _, rfl⟩ := List.mem_map.mp hr
    simp
  refine ⟨(P.map (fun row => idft (α := ℝ) tw row (2 * (acc.length / 2)))).reverse, ?_, by simp [hPlen], ?_⟩
  · unfold transform
    simp only [h, if_false, ← hPdef]
  · have e1 := slow_ifft tw P _ h hrow ith
    have e2 := slow_store P _ hrow ith (fun row => idft (α := ℝ) tw row (2 * (acc.length / 2)))
    have e3 := slow_flip P (NpR.pyIdx P.length (-ith)) (P.length - NpR.pyIdx P.length (-ith)) (pyIdx_le _ _)
      (fun row => idft (α := ℝ) tw row (2 * (acc.length / 2))) (List.replicate (2 * (acc.length / 2)) (0 : ℂ))
    rw [hPlen] at e1 e2 e3
    unfold Gen.StockwellFns2.transformSlow
    simp only [gen_generateGaussian, npr_toeplitz, NpE.fft, h, if_false, bind, Except.bind, pure, Except.pure, List.drop_zero, ← hPdef,
      e1, e2, e3]

example : ∃ full, transform (fun _ _ => (1 : ℂ)) (fun x : ℝ => x) 3 [1, 2, 3, 4, 5, 6] = .ok full ∧ full.length = 3 ∧
    Gen.StockwellFns2.transformSlow (fun _ _ => (1 : ℂ)) (fun x : ℝ => x) 3 [1, 2, 3, 4, 5, 6] 1 =
      .ok (List.replicate 1 (List.replicate 6 (0 : ℂ)) ++ full.drop 1) := by
  obtain ⟨full, h1, h2, h3⟩ := gen_transformSlow_rows (fun _ _ => (1 : ℂ)) (fun x : ℝ => x) 3 [1, 2, 3, 4, 5, 6] 1 (by decide)
  refine ⟨full, h1, h2, ?_⟩
  rw [h3]
  have e : NpR.pyIdx (([1, 2, 3, 4, 5, 6] : List ℂ).length / 2) (-(1 : ℤ)) = 2 := by decide
  rw [e]
  rfl

/-- **the relation asked for: `ith = j ≥ 1`**: the first `min j n_d2` rows of `transform_slow(acc, j)` are zero rows and its rows `j ..` are
those of `transform(acc)`; both arrays have `n_d2` rows.  (For `j ≥ n_d2` everything is zero; for `ith = 0` too — `gen_transformSlow_default_zero`.) -/
theorem gen_transformSlow_ith (tw : ℕ → ℕ → ℂ) (exp : ℝ → ℝ) (pi : ℝ) (acc : List ℂ) (j : ℕ) (hj : 1 ≤ j) (h : 2 * (acc.length / 2) ≠ 0) :
    ∃ full slow, transform tw exp pi acc = .ok full ∧ Gen.StockwellFns2.transformSlow tw exp pi acc (j : ℤ) = .ok slow ∧
      full.length = acc.length / 2 ∧ slow.length = acc.length / 2 ∧
      ∀ i, i < acc.length / 2 → slow[i]? = if i < j then some (List.replicate (2 * (acc.length / 2)) (0 : ℂ)) else full[i]? := by
  obtain ⟨full, h1, h2, h3⟩ := gen_transformSlow_rows tw exp pi acc (j : ℤ) h
  have hk : acc.length / 2 - NpR.pyIdx (acc.length / 2) (-(j : ℤ)) = min j (acc.length / 2) := by
    simp only [NpR.pyIdx]; split_ifs <;> omega
  rw [hk] at h3
  refine ⟨full, _, h1, h3, h2, ?_, ?_⟩
  · simp only [List.length_append, List.length_replicate, List.length_drop, h2]; omega
  · intro i hi
    rw [List.getElem?_append, List.length_replicate, List.getElem?_replicate, List.getElem?_drop]
    by_cases hij : i < j
    · have : i < min j (acc.length / 2) := by omega
      simp only [this, hij, if_true]
    · have : ¬ i < min j (acc.length / 2) := by omega
      simp only [this, hij, if_false]
      congr 1
      omega

example : ∃ full slow, transform (fun _ _ => (1 : ℂ)) (fun x : ℝ => x) 3 [1, 2, 3, 4, 5, 6] = .ok full ∧
    Gen.StockwellFns2.transformSlow (fun _ _ => (1 : ℂ)) (fun x : ℝ => x) 3 [1, 2, 3, 4, 5, 6] 2 = .ok slow ∧
    slow[1]? = some (List.replicate 6 (0 : ℂ)) ∧ slow[2]? = full[2]? := by
  obtain ⟨full, slow, h1, h2, _, _, h5⟩ := gen_transformSlow_ith (fun _ _ => (1 : ℂ)) (fun x : ℝ => x) 3 [1, 2, 3, 4, 5, 6] 2 (by decide) (by decide)
  exact ⟨full, slow, h1, h2, by simpa using h5 1 (by decide), by simpa using h5 2 (by decide)⟩

/-- **negative `ith = −j`** keeps only the LAST `min j n_d2` rows of `transform(acc)` (`aa[:j]` are the lowest harmonics, flipped to the end) -/
theorem gen_transformSlow_neg (tw : ℕ → ℕ → ℂ) (exp : ℝ → ℝ) (pi : ℝ) (acc : List ℂ) (j : ℕ) (hj : 1 ≤ j) (h : 2 * (acc.length / 2) ≠ 0) :
    ∃ full, transform tw exp pi acc = .ok full ∧ full.length = acc.length / 2 ∧
      Gen.StockwellFns2.transformSlow tw exp pi acc (-(j : ℤ)) =
        .ok (List.replicate (acc.length / 2 - min j (acc.length / 2)) (List.replicate (2 * (acc.length / 2)) (0 : ℂ))
              ++ full.drop (acc.length / 2 - min j (acc.length / 2))) := by
  obtain ⟨full, h1, h2, h3⟩ := gen_transformSlow_rows tw exp pi acc (-(j : ℤ)) h
  have hk : NpR.pyIdx (acc.length / 2) (- -(j : ℤ)) = min j (acc.length / 2) := by
    simp only [NpR.pyIdx]; split_ifs <;> omega
  rw [hk] at h3
  exact ⟨full, h1, h2, h3⟩

example := gen_transformSlow_neg (fun _ _ => (1 : ℂ)) (fun x : ℝ => x) 3 [1, 2, 3, 4, 5, 6] 1 (by decide) (by decide)

end EqsigVerif.Props.C15
