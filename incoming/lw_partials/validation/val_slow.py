# statement-level check of Props/C15GenSlowIth.lean against the real eqsig.stockwell.transform / transform_slow
import numpy as np
from eqsig import stockwell as sw
rng = np.random.default_rng(3)
def pyidx(n, b): return max(n + b, 0) if b < 0 else min(b, n)
bad = 0; cases = 0
for n in [2, 3, 4, 5, 8, 9, 16, 31]:
    acc = rng.integers(-8, 9, size=n) / 4
    full = sw.transform(acc); nd2 = n // 2
    for ith in [-40, -5, -2, -1, 0, 1, 2, 3, nd2 - 1, nd2, nd2 + 1, 40]:
        slow = sw.transform_slow(acc, ith=ith)
        k = pyidx(nd2, -ith)
        exp = np.vstack([np.zeros((nd2 - k, 2 * nd2), dtype=complex), full[nd2 - k:]])
        cases += 1
        if slow.shape != exp.shape or not np.allclose(slow, exp, rtol=0, atol=1e-12):
            bad += 1; print("MISMATCH", n, ith)
print("cases", cases, "bad", bad)
