# statement-level validation of Props/C08CorrectMe.lean::correct_me_spec against the real AccSignal.correct_me
import numpy as np, eqsig
from scipy.signal import detrend
rng = np.random.default_rng(7)
bad = 0; cases = 0
for n in [1, 2, 3, 4, 9, 10, 11, 12, 25, 200] * 6:
    dt = float(rng.choice([0.5, 0.25, 1.0, 0.01, 2.0]))
    vals = rng.integers(-8, 9, size=n).astype(float) / 4
    a = eqsig.AccSignal(vals.copy(), dt)
    d = detrend(a.displacement)
    a.correct_me()
    new = a.values
    m = min(10, n)
    exp = np.zeros(n)
    for i in range(n):
        if i < 10:
            exp[i] = (d[m - 1] - d[max(m - 2, 0)]) / (m * dt ** 2)
        else:
            exp[i] = (d[i] - 2 * d[i - 1] + d[i - 2]) / dt ** 2
    scale = max(1.0, np.max(np.abs(d)) / dt ** 2)
    cases += 1
    if len(new) != n or not np.allclose(new, exp, rtol=1e-9, atol=1e-9 * scale):
        bad += 1; print("MISMATCH", n, dt, new[:12], exp[:12])
# error branches
try:
    eqsig.AccSignal(np.array([]), 0.5).correct_me(); print("empty: no raise")
except Exception as e:
    print("empty:", type(e).__name__)
with np.errstate(all="ignore"):
    a = eqsig.AccSignal(np.array([1., 2., 4.]), 0.0); a.correct_me(); print("dt=0:", a.values)
    a = eqsig.AccSignal(np.array([5.]), 0.0); a.correct_me(); print("n=1, dt=0:", a.values)
print("cases", cases, "bad", bad)
