"""sensitivity pass: one-line mutations of the combinators in a scratch copy; each must be reported by its handler's requests"""
import os, re, shutil, subprocess, sys, json, time

SRC = '/tmp/hw_npp/lean'
MUT = '/tmp/hw_npp/mut_lean'
HARNESS = '/tmp/hw_npp/harness'
P = 'EqsigVerif/Prelude/NpP.lean'
R = 'EqsigVerif/Prelude/NpR.lean'

# (id, file, old, new, occurrence index (0-based) among the matches of old, handlers expected to report it)
M = [
    ('P01 wrapIdx i<=n', P, 'if i < n then some i.toNat', 'if i ≤ n then some i.toNat', 0, ['np.p.wrap_idx']),
    ('P02 wrapIdx 0<i+n', P, 'else if 0 ≤ i + n then', 'else if 0 < i + n then', 0, ['np.p.wrap_idx']),
    ('P03 takeE i<=len', P, 'if idx.all (fun i => decide (i < l.length)) then .ok (Np.takeIdx l idx)', 'if idx.all (fun i => decide (i ≤ l.length)) then .ok (Np.takeIdx l idx)', 0, ['np.p.take']),
    ('P04 takeIE kind', P, '    | none => .error .IndexError)', '    | none => .error .ValueError)', 0, ['np.p.take_i']),
    ('P05 putCyc restart', P, '    | v :: vs => putCyc all (base.set i v) is vs', '    | v :: _ => putCyc all (base.set i v) is all', 0, ['np.p.put', 'np.p.put_cyc']),
    ('P06 putCyc order', P, '  | base, i :: is, v :: vs => putCyc all (base.set i v) is vs', '  | base, i :: is, v :: vs => (putCyc all base is vs).set i v', 0, ['np.p.put', 'np.p.put_cyc']),
    ('P07 putE no empty rule', P, 'def putE (base : List β) (idx : List Nat) (vals : List β) : Except ErrKind (List β) :=\n  if vals.isEmpty then .ok base', 'def putE (base : List β) (idx : List Nat) (vals : List β) : Except ErrKind (List β) :=\n  if false then .ok base', 0, ['np.p.put']),
    ('P08 putE i<=len', P, 'else if idx.all (fun i => decide (i < base.length))', 'else if idx.all (fun i => decide (i ≤ base.length))', 0, ['np.p.put']),
    ('P09 putIE no raise', P, '    | none => .error .IndexError\n', '    | none => .ok base\n', 0, ['np.p.put_i']),
    ('P10 putIE no empty rule', P, 'def putIE (base : List β) (idx : List Int) (vals : List β) : Except ErrKind (List β) :=\n  if vals.isEmpty then .ok base', 'def putIE (base : List β) (idx : List Int) (vals : List β) : Except ErrKind (List β) :=\n  if false then .ok base', 0, ['np.p.put_i']),
    ('P11 deleteFrom i+2', P, 'else x :: deleteFrom rem (i+1) xs', 'else x :: deleteFrom rem (i+2) xs', 0, ['np.p.delete', 'np.p.delete_from']),
    ('P12 deleteE kind', P, '.ok (deleteFrom rem 0 l) else .error .IndexError', '.ok (deleteFrom rem 0 l) else .error .ValueError', 0, ['np.p.delete']),
    ('P13 deleteE from 1', P, '.ok (deleteFrom rem 0 l)', '.ok (deleteFrom rem 1 l)', 0, ['np.p.delete']),
    ('P14 strideAux step', P, '  | 0, x :: xs => x :: strideAux step (step - 1) xs', '  | 0, x :: xs => x :: strideAux step step xs', 0, ['np.p.slice_step', 'np.p.stride_aux']),
    ('P15 sliceStep drop', P, 'strideAux step 0 (l.drop start)', 'strideAux step 0 (l.drop (start + 1))', 0, ['np.p.slice_step']),
    ('P16 iaddFrom k+1', P, 'l.take k ++ (l.drop k).map (· + s)', 'l.take (k+1) ++ (l.drop (k+1)).map (· + s)', 0, ['np.p.iadd_from']),
    ('P17 sign zero', P, 'if x < 0 then -1 else if 0 < x then 1 else 0', 'if x < 0 then -1 else if 0 < x then 1 else 1', 0, ['np.p.sign', 'np.p.sign_int']),
    ('P18 insertAsc order', P, 'if a ≤ b then a :: b :: bs else b :: insertAsc a bs', 'if a ≤ b then b :: a :: bs else b :: insertAsc a bs', 0, ['np.p.insert_asc', 'np.p.sort_asc']),
    ('P19 sortAsc id', P, 'def sortAsc (l : List Nat) : List Nat := l.foldr insertAsc []', 'def sortAsc (l : List Nat) : List Nat := l', 0, ['np.p.sort_asc']),
    ('P20 forEnumFrom counter', P, '    | .ok s\' => forEnumFrom step (k+1) xs s\'', '    | .ok s\' => forEnumFrom step k xs s\'', 0, ['np.p.for_enum', 'np.p.for_enum_from']),
    ('P21 forEnumFrom ignores exc', P, '    | .error e => .error e\n    | .ok s\' => forEnumFrom', '    | .error _ => forEnumFrom step (k+1) xs s\n    | .ok s\' => forEnumFrom', 0, ['np.p.for_enum', 'np.p.for_enum_from']),
    ('P22 forEnumE from 1', P, '  forEnumFrom step 0 l s', '  forEnumFrom step 1 l s', 0, ['np.p.for_enum']),
    ('P23 forEnumE reversed', P, '  forEnumFrom step 0 l s', '  forEnumFrom step 0 l.reverse s', 0, ['np.p.for_enum']),
    ('P24 forCountFrom counter', P, '    | .ok s\' => forCountFrom step (a+1) n s\'', '    | .ok s\' => forCountFrom step a n s\'', 0, ['np.p.for_range', 'np.p.for_count_from']),
    ('P25 forCountFrom ignores exc', P, '    | .error e => .error e\n    | .ok s\' => forCountFrom', '    | .error _ => forCountFrom step (a+1) n s\n    | .ok s\' => forCountFrom', 0, ['np.p.for_range', 'np.p.for_count_from']),
    ('P26 forRangeE count b', P, '  forCountFrom step a (b - a) s', '  forCountFrom step a b s', 0, ['np.p.for_range']),
    ('P27 forRangeE one more', P, '  forCountFrom step a (b - a) s', '  forCountFrom step a (b - a + 1) s', 0, ['np.p.for_range']),
    ('P28 lastRangeE value', P, 'if a < b then .ok (b - 1) else .error .Other', 'if a < b then .ok b else .error .Other', 0, ['np.p.last_range']),
    ('P29 lastRangeE a<=b', P, 'if a < b then .ok (b - 1) else .error .Other', 'if a ≤ b then .ok (b - 1) else .error .Other', 0, ['np.p.last_range']),
    ('P30 lastRangeE kind', P, 'if a < b then .ok (b - 1) else .error .Other', 'if a < b then .ok (b - 1) else .error .IndexError', 0, ['np.p.last_range']),
    ('P31 takeIE inner getD', P, '    | some k => (match l[k]? with | some x => .ok x | none => .error .IndexError)', '    | some k => (match l[k+1]? with | some x => .ok x | none => .error .IndexError)', 0, ['np.p.take_i']),

    ('R01 guardE flipped', R, 'if b then .error e else .ok ()', 'if b then .ok () else .error e', 0, ['np.r.guard']),
    ('R02 tryCatchE catches all', R, '  | .error e => if e = k then handler else .error e', '  | .error _ => handler', 0, ['np.r.try_catch']),
    ('R03 tryCatchE ok runs handler', R, '  | .ok v => .ok v', '  | .ok _ => handler', 0, ['np.r.try_catch']),
    ('R04 tryCatchE rethrows k', R, '  | .error e => if e = k then handler else .error e', '  | .error e => if e = k then handler else .error k', 0, ['np.r.try_catch']),
    ('R05 joinL trailing sep', R, '  | [l] => l\n', '  | [l] => l ++ sep\n', 0, ['np.r.join']),
    ('R06 joinL no sep', R, '  | l :: ls => l ++ sep ++ joinL sep ls', '  | l :: ls => l ++ joinL sep ls', 0, ['np.r.join']),
    ('R07 pyGetE i<=0', R, 'let j : Int := if i < 0 then i + l.length else i', 'let j : Int := if i ≤ 0 then i + l.length else i', 0, ['np.r.py_get', 'np.r.take']),
    ('R08 pyGetE kind', R, '  if j < 0 then .error .IndexError else', '  if j < 0 then .error .ValueError else', 0, ['np.r.py_get', 'np.r.take']),
    ('R09 takeE reversed', R, 'idx.mapM (pyGetE l)', 'idx.reverse.mapM (pyGetE l)', 0, ['np.r.take']),
    ('R10 setLastE first', R, '.ok (l.take (l.length - 1) ++ [v])', '.ok (v :: l.drop 1)', 0, ['np.r.set_last']),
    ('R11 setLastE no raise', R, 'if l.length = 0 then .error .IndexError else .ok (l.take', 'if false then .error .IndexError else .ok (l.take', 0, ['np.r.set_last']),
    ('R12 setE i<=len', R, '  if i < l.length then .ok (l.set i v) else .error .IndexError', '  if i ≤ l.length then .ok (l.set i v) else .error .IndexError', 0, ['np.r.set']),
    ('R13 pyIdx b<=0', R, 'if b < 0 then ((n : Int) + b).toNat else min b.toNat n', 'if b ≤ 0 then ((n : Int) + b).toNat else min b.toNat n', 0, ['np.r.py_idx']),
    ('R14 pyIdx no clip', R, 'if b < 0 then ((n : Int) + b).toNat else min b.toNat n', 'if b < 0 then ((n : Int) + b).toNat else b.toNat', 0, ['np.r.py_idx']),
    ('R15 pySlice swapped', R, '(l.take (pyIdx l.length b)).drop (pyIdx l.length a)', '(l.take (pyIdx l.length a)).drop (pyIdx l.length b)', 0, ['np.r.py_slice']),
    ('R16 pyFrom take', R, 'List γ := l.drop (pyIdx l.length a)', 'List γ := l.take (pyIdx l.length a)', 0, ['np.r.py_from']),
    ('R17 pyTo b+1', R, 'List γ := l.take (pyIdx l.length b)', 'List γ := l.take (pyIdx l.length (b + 1))', 0, ['np.r.py_to']),
    ('R18 fillFromPy one more', R, 'List.replicate (a.length - pyIdx a.length lo) v', 'List.replicate (a.length - pyIdx a.length lo + 1) v', 0, ['np.r.fill_from_py']),
    ('R19 setSlicePyE bcast tail', R, '    | [v] => .ok (a.take l ++ List.replicate m v ++ a.drop (l + m))', '    | [v] => .ok (a.take l ++ List.replicate m v ++ a.drop l)', 0, ['np.r.set_slice_py']),
    ('R20 setSlicePyE no bcast', R, '    | [v] => .ok (a.take l ++ List.replicate m v ++ a.drop (l + m))', '    | [_] => .error .ValueError', 0, ['np.r.set_slice_py']),
    ('R21 setSlicePyE kind', R, '    | _ => .error .ValueError', '    | _ => .error .IndexError', 0, ['np.r.set_slice_py']),
    ('R22 setSlicePyE tail', R, '  if rhs.length = m then .ok (a.take l ++ rhs ++ a.drop (l + m))', '  if rhs.length = m then .ok (a.take l ++ rhs ++ a.drop (l + m + 1))', 0, ['np.r.set_slice_py']),
    ('R23 minE max', R, '  match Np.minL? x with', '  match Np.maxL? x with', 0, ['np.r.min']),
    ('R24 minE kind', R, '  | none => .error .ValueError', '  | none => .error .IndexError', 0, ['np.r.min']),
    ('R25 clipLo flipped', R, 'if v < lo then lo else v', 'if v < lo then v else lo', 0, ['np.r.clip_lo']),
    ('R26 clipHi flipped', R, 'if hi < v then hi else v', 'if v < hi then hi else v', 0, ['np.r.clip_hi']),
    ('R27 searchsorted left', R, '  | a :: as, q => if a ≤ q then searchsortedRight as q + 1 else 0', '  | a :: as, q => if ¬ (q ≤ a) then searchsortedRight as q + 1 else 0', 0, ['np.r.searchsorted_right']),
    ('R28 trilRow take i', R, 'v.take (i + 1) ++ List.replicate (v.length - (i + 1)) 0', 'v.take i ++ List.replicate (v.length - i) 0', 0, ['np.r.tril_row']),
    ('R29 triuRow drop', R, 'List.replicate (min i v.length) 0 ++ v.drop i', 'List.replicate (min (i + 1) v.length) 0 ++ v.drop (i + 1)', 0, ['np.r.triu_row']),
    ('R30 meanT n+1', R, 'Cplx.sumL x / ((x.length : Nat) : γ)', 'Cplx.sumL x / ((x.length + 1 : Nat) : γ)', 0, ['np.r.mean_t', 'np.r.mean_t_f']),
    ('R31 linspace01 /n', R, '/ (((n - 1 : Nat) : Nat) : γ)', '/ (((n : Nat) : Nat) : γ)', 0, ['np.r.linspace01']),
    ('R32 toeplitz j<i', R, '    if j ≤ i then c.getD (i - j) 0 else r.getD (j - i) 0))', '    if j < i then c.getD (i - j) 0 else r.getD (j - i) 0))', 0, ['np.r.toeplitz']),
    ('R33 toeplitz transposed', R, '    if j ≤ i then c.getD (i - j) 0 else r.getD (j - i) 0))', '    if i ≤ j then c.getD (j - i) 0 else r.getD (i - j) 0))', 0, ['np.r.toeplitz']),
    ('R34 ifftRowsE forward', R, '  M.mapM (fun row => NpE.ifft tw row row.length)', '  M.mapM (fun row => NpE.fft tw row row.length)', 0, ['np.r.ifft_rows']),
    ('R35 ifftRowsE rows reversed', R, '  M.mapM (fun row => NpE.ifft tw row row.length)', '  M.reverse.mapM (fun row => NpE.ifft tw row row.length)', 0, ['np.r.ifft_rows']),
    ('R36 argmaxAxis0E kind', R, '  if M.length = 0 then .error .ValueError', '  if M.length = 0 then .error .IndexError', 0, ['np.r.argmax_axis0']),
    ('R37 argmaxAxis0E argmin', R, 'Np.argmax (M.map (fun row => row.getD j 0))', 'Np.argmin (M.map (fun row => row.getD j 0))', 0, ['np.r.argmax_axis0']),
    ('R38 pyDivE a==0', R, '  if b == 0 then .error .ZeroDivisionError else .ok (a / b)', '  if a == 0 then .error .ZeroDivisionError else .ok (a / b)', 0, ['np.r.py_div', 'np.r.py_div_f']),
    ('R39 pyDivE kind', R, '  if b == 0 then .error .ZeroDivisionError else .ok (a / b)', '  if b == 0 then .error .ValueError else .ok (a / b)', 0, ['np.r.py_div', 'np.r.py_div_f']),
    ('R40 pyDivE no raise', R, '  if b == 0 then .error .ZeroDivisionError else .ok (a / b)', '  if false then .error .ZeroDivisionError else .ok (a / b)', 0, ['np.r.py_div', 'np.r.py_div_f']),
    ('R41 argmaxAxis0E columns of last row', R, '(M.head?.map List.length).getD 0', '(M.head?.map List.length).getD 0 + 1', 0, ['np.r.argmax_axis0']),
]


def strip_examples(text):
    """the kernel-checked `example`s of NpP.lean would (rightly) stop the build of a mutant: drop them in the scratch copy"""
    out, skip = [], False
    for line in text.split('\n'):
        if line.startswith('example'):
            skip = True
        if skip:
            if line.strip() == '':
                skip = False
                out.append(line)
            continue
        out.append(line)
    return '\n'.join(out)


def main():
    only = sys.argv[1:]
    if not os.path.exists(MUT):
        shutil.copytree(SRC, MUT, symlinks=True)
    base = {}
    for f in (P, R):
        base[f] = strip_examples(open(os.path.join(SRC, f)).read())
    results = []
    for (mid, f, old, new, occ, expect) in M:
        if only and not any(mid.startswith(o) for o in only):
            continue
        for g in (P, R):
            open(os.path.join(MUT, g), 'w').write(base[g])
        text = base[f]
        if text.count(old) < occ + 1:
            results.append((mid, 'PATTERN NOT FOUND', {}))
            print(mid, 'PATTERN NOT FOUND', flush=True)
            continue
        if text.count(old) != 1:
            print(mid, f'note: {text.count(old)} matches, mutating #{occ}', flush=True)
        parts = text.split(old)
        text2 = old.join(parts[:occ + 1]) + new + old.join(parts[occ + 1:])
        open(os.path.join(MUT, f), 'w').write(text2)
        b = subprocess.run(['lake', 'build', 'eqsig_driver'], cwd=MUT, capture_output=True, text=True)
        if b.returncode != 0:
            results.append((mid, 'BUILD FAILED', {}))
            print(mid, 'BUILD FAILED', (b.stdout + b.stderr)[-600:], flush=True)
            continue
        failing = {}
        for seed in (0, 1):
            env = dict(os.environ, PYTHONPATH='/repo', PRELUDE_DRIVER=os.path.join(MUT, '.lake/build/bin/eqsig_driver'), PRELUDE_JSON='1')
            r = subprocess.run(['/venv/bin/python', 'prelude_check_p.py', str(seed)], cwd=HARNESS, env=env, capture_output=True, text=True)
            m = re.search(r"failing=(\{.*?\}) notes", r.stdout)
            d = eval(m.group(1)) if m else {'?': r.stdout[-300:] + r.stderr[-300:]}
            for k, v in d.items():
                failing[k.replace('PRELUDE ', '')] = failing.get(k.replace('PRELUDE ', ''), 0) + v
        caught = [h for h in expect if failing.get(h, 0) > 0]
        status = 'caught' if len(caught) == len(expect) else ('PARTLY' if caught else 'NOT CAUGHT')
        results.append((mid, status, failing))
        print(f"{mid:36s} {status:10s} {failing}", flush=True)
    for g in (P, R):
        open(os.path.join(MUT, g), 'w').write(base[g])
    json.dump(results, open('/tmp/hw_npp/mutation_results.json', 'w'), indent=1)
    print('not fully caught:', [r[0] for r in results if r[1] != 'caught'])


main()
