import EqsigVerif.Audit
import EqsigVerif.Props.C20
import EqsigVerif.Props.C16
#audit EqsigVerif.Props.C20
#audit EqsigVerif.Props.C16
