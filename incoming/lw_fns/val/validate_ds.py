"""Differential validation of EqsigVerif/Model/DesignSpectra.lean (Float instantiation, handlers in
EqsigVerif/Handlers/DesignSpectra.lean) against eqsig.design_spectra (tree /tmp/repo_fixed).
run: cd /tmp/repo_fixed && PYTHONPATH=/tmp/repo_fixed /venv/bin/python /tmp/lw_fns/val/validate_ds.py
"""
import subprocess, sys, struct, random, warnings, io, contextlib, math, os
import numpy as np
warnings.simplefilter('ignore')
from eqsig.design_spectra import c_h_factor, sd_nzs, t_eff

LEAN_DIR = os.environ.get('DS_LEAN_DIR', '/tmp/lw_fns')
REL = 1e-12
rnd = random.Random(20260926)


def bits(x):
    return struct.unpack('<Q', struct.pack('<d', float(x)))[0]
def unbits(n):
    return struct.unpack('<d', struct.pack('<Q', n))[0]
def tok(x):
    return f"b{bits(x)}"
def toks(l):
    return " ".join(tok(v) for v in l)


def py_outcome(th):
    try:
        with contextlib.redirect_stdout(io.StringIO()):   # the library prints before raising
            r = th()
        return ('ok', [float(v) for v in np.atleast_1d(r)])
    except Exception as e:
        return ('err', type(e).__name__)


cases = []   # (request, thunk, label)

# ------------------------------------------------------------------ period grid
BREAKS = [0.0, 0.1, 0.3, 0.56, 1.0, 1.5, 3.0]
periods = [float(v) for v in np.linspace(0.0, 6.0, 2401)]             # regular grid, 2401 points
periods += [rnd.uniform(0.0, 6.0) for _ in range(600)]                # random doubles
periods += [rnd.uniform(0.0, 0.12) for _ in range(100)]               # dense near the first ramp
for b in BREAKS:
    periods += [b, float(np.nextafter(b, np.inf)), float(np.nextafter(b, -np.inf))]   # the last is < 0 for b = 0
periods += [5e-324, 1e-300, 2.0 ** -30, 6.0, 10.0, 1e3, 1e10, 1e100]  # tiny, large (no overflow of tt**2)
periods += [-0.0]                                                     # `-0.0 < 0` False, `-0.0 == 0` True
NEG = [-1.0, -0.5, -1e-300, -5e-324, -1e10]
CLASSES = ['C', 'D', 'E']
BADCLASSES = ['A', 'c', 'CD', 'B']
ZRN = [(1.0, 1.0, 1.0), (0.4, 1.0, 1.0), (0.13, 1.3, 1.0), (0.3, 0.25, 1.72), (0.6, 1.8, 1.2), (0.22, 0.5, 1.05)]

# ------------------------------------------------------------------ c_h_factor scalar
for c in CLASSES:
    for T in periods + NEG:
        cases.append((f"c_h_factor|{tok(T)}|{c}", (lambda T=T, c=c: c_h_factor(T, c)), 'c_h_factor scalar'))
for c in BADCLASSES:
    for T in [0.0, 0.05, 0.5, 2.0, 5.0, -1.0, -5e-324]:           # negative period + bad class: period check first
        cases.append((f"c_h_factor|{tok(T)}|{c}", (lambda T=T, c=c: c_h_factor(T, c)), 'c_h_factor scalar badclass'))

# ------------------------------------------------------------------ c_h_factor array
nonneg = [T for T in periods if not (T < 0)]
for c in CLASSES:
    arr = list(nonneg)
    cases.append((f"c_h_factor_arr|{toks(arr)}|{c}", (lambda a=arr, c=c: c_h_factor(np.array(a), c)), 'c_h_factor array'))
    for k in range(40):                                             # short arrays, some with a negative entry
        n = rnd.choice([0, 1, 1, 2, 3, 5, 8])
        a = [rnd.choice(nonneg) for _ in range(n)]
        if n and rnd.random() < 0.4:
            a[rnd.randrange(n)] = rnd.choice(NEG)
        cases.append((f"c_h_factor_arr|{toks(a)}|{c}", (lambda a=a, c=c: c_h_factor(np.array(a, dtype=float), c)),
                      'c_h_factor array short'))
    # list input (not ndarray) and np.float64 scalar behave like array / float
    a = [0.05, 0.2, 0.7, 2.0, 4.0]
    cases.append((f"c_h_factor_arr|{toks(a)}|{c}", (lambda a=a, c=c: c_h_factor(list(a), c)), 'c_h_factor list'))
    cases.append((f"c_h_factor|{tok(0.7)}|{c}", (lambda c=c: c_h_factor(np.float64(0.7), c)), 'c_h_factor np.float64'))
for c in BADCLASSES:
    for a in [[], [1.0], [1.0, 2.0], [-1.0], [1.0, -1.0], [-1.0, 1.0]]:
        cases.append((f"c_h_factor_arr|{toks(a)}|{c}", (lambda a=a, c=c: c_h_factor(np.array(a, dtype=float), c)),
                      'c_h_factor array badclass'))

# ------------------------------------------------------------------ sd_nzs
for c in CLASSES:
    for (z, r, n) in ZRN:
        sub = periods if (z, r, n) == ZRN[0] else periods[::7] + periods[-120:]
        for T in sub + NEG:
            cases.append((f"sd_nzs|{tok(T)}|{c}|{tok(z)}|{tok(r)}|{tok(n)}",
                          (lambda T=T, c=c, z=z, r=r, n=n: sd_nzs(T, c, z, r, n)), 'sd_nzs'))
for c in BADCLASSES:
    for T in [0.0, 0.05, 0.5, 2.0, 5.0, -1.0]:
        cases.append((f"sd_nzs|{tok(T)}|{c}|{tok(0.4)}|{tok(1.0)}|{tok(1.0)}",
                      (lambda T=T, c=c: sd_nzs(T, c, 0.4, 1.0, 1.0)), 'sd_nzs badclass'))

# ------------------------------------------------------------------ t_eff
def py_dc(c, z, r, n):
    k = {'C': 3.96, 'D': 6.42, 'E': 9.96}[c]
    return k * z * r * n / (2 * np.pi) ** 2 * 9.81
for c in CLASSES:
    for (z, r, n) in ZRN:
        dc = py_dc(c, z, r, n)
        ds = [0.0, dc, float(np.nextafter(dc, np.inf)), float(np.nextafter(dc, -np.inf)), dc / 2, dc / 3, 2 * dc,
              dc * 1.0000001, 1e-9, -0.1, -dc, 1e6]
        ds += [rnd.uniform(0, 1.2 * dc) for _ in range(25)]
        for d in ds:
            cases.append((f"t_eff|{tok(d)}|{c}|{tok(z)}|{tok(r)}|{tok(n)}",
                          (lambda d=d, c=c, z=z, r=r, n=n: t_eff(d, c, z, r, n)), 't_eff'))
        cases.append((f"ds_d_c|{c}|{tok(z)}|{tok(r)}|{tok(n)}", (lambda dc=dc: dc), 'd_c'))
    # d_c = 0: ValueError above, ZeroDivisionError at/below
    for (z, r, n) in [(0.0, 1.0, 1.0), (1.0, 0.0, 1.0), (1.0, 1.0, 0.0)]:
        for d in [0.0, 1.0, -1.0, 5e-324]:
            cases.append((f"t_eff|{tok(d)}|{c}|{tok(z)}|{tok(r)}|{tok(n)}",
                          (lambda d=d, c=c, z=z, r=r, n=n: t_eff(d, c, z, r, n)), 't_eff d_c=0'))
for c in BADCLASSES:
    for d in [0.0, 0.1, 1e9, -1.0]:                                 # class check first, even for huge displacement
        cases.append((f"t_eff|{tok(d)}|{c}|{tok(0.4)}|{tok(1.0)}|{tok(1.0)}",
                      (lambda d=d, c=c: t_eff(d, c, 0.4, 1.0, 1.0)), 't_eff badclass'))
cases.append(("ds_pi", (lambda: np.pi), 'pi'))

# ------------------------------------------------------------------ run Lean once
req = "\n".join(c[0] for c in cases) + "\n"
p = subprocess.run(['lake', 'env', 'lean', '--run', 'val/DsDriver.lean'], cwd=LEAN_DIR, input=req,
                   capture_output=True, text=True)
if p.returncode != 0:
    print(p.stdout[-2000:]); print(p.stderr[-4000:]); sys.exit(2)
lines = p.stdout.strip("\n").split("\n")
assert len(lines) == len(cases), (len(lines), len(cases))

stats = {}
fails = []
for (rq, th, label), ln in zip(cases, lines):
    st = stats.setdefault(label, dict(n=0, ok=0, err=0, vals=0, bitid=0, maxrel=0.0, fail=0))
    st['n'] += 1
    kind, payload = py_outcome(th)
    parts = ln.split("|")
    good = False
    if parts[0] == 'bad':
        good = False
    elif kind == 'err':
        good = (parts[0] == 'err' and parts[1] == payload)
        st['err'] += good
    else:
        if parts[0] == 'ok':
            out = [unbits(int(t[1:])) for t in " ".join(parts[1:]).split()]
            if len(out) == len(payload):
                good = True
                for a, b in zip(out, payload):
                    st['vals'] += 1
                    if bits(a) == bits(b) or (a == b) or (math.isnan(a) and math.isnan(b)):
                        st['bitid'] += (bits(a) == bits(b)) or (math.isnan(a) and math.isnan(b))
                        if a == b and bits(a) != bits(b):
                            good = False                              # signed zero mismatch counts as failure
                        continue
                    rel = abs(a - b) / max(abs(a), abs(b))
                    st['maxrel'] = max(st['maxrel'], rel)
                    if not rel <= REL:
                        good = False
            st['ok'] += good
    if not good:
        st['fail'] += 1
        fails.append((label, rq[:120], kind, payload if kind == 'err' else payload[:4], ln[:160]))

print(f"{'label':30s} {'cases':>6s} {'ok':>6s} {'err':>5s} {'values':>7s} {'bit-id':>7s} {'max rel':>10s} {'FAIL':>5s}")
tot = dict(n=0, ok=0, err=0, vals=0, bitid=0, fail=0)
for label, st in stats.items():
    print(f"{label:30s} {st['n']:6d} {st['ok']:6d} {st['err']:5d} {st['vals']:7d} {st['bitid']:7d} {st['maxrel']:10.2e} {st['fail']:5d}")
    for k in tot: tot[k] += st[k]
print(f"{'TOTAL':30s} {tot['n']:6d} {tot['ok']:6d} {tot['err']:5d} {tot['vals']:7d} {tot['bitid']:7d} {'':10s} {tot['fail']:5d}")
for f in fails[:30]:
    print("FAIL", f)

# ------------------------------------------------------------------ Python observations (not compared with the model)
print("\n-- Python observations")
def obs(label, th):
    k, v = py_outcome(th)
    print(f"  {label:55s} -> {k} {v}")
obs("c_h_factor(1, 'C')            [int period]", lambda: c_h_factor(1, 'C'))
obs("c_h_factor(np.float32(0.5),'C')", lambda: c_h_factor(np.float32(0.5), 'C'))
obs("c_h_factor(np.float64(0.5),'C') [float subclass]", lambda: c_h_factor(np.float64(0.5), 'C'))
obs("c_h_factor(np.array(0.5),'C') [0-d array]", lambda: c_h_factor(np.array(0.5), 'C'))
obs("c_h_factor(np.array([]),'A')  [empty, unknown class]", lambda: c_h_factor(np.array([]), 'A'))
obs("c_h_factor(1e200,'C')         [float: tt**2 overflows]", lambda: c_h_factor(1e200, 'C'))
obs("c_h_factor(np.array([1e200]),'C') [np.float64: inf]", lambda: c_h_factor(np.array([1e200]), 'C'))
obs("sd_nzs(np.array([0.5,1.0]),'C',1,1,1) [docstring: array]", lambda: sd_nzs(np.array([0.5, 1.0]), 'C', 1., 1., 1.))
obs("sd_nzs(np.array([0.5]),'C',1,1,1)", lambda: sd_nzs(np.array([0.5]), 'C', 1., 1., 1.))
obs("sd_nzs(2,'C',1,1,1)           [int period]", lambda: sd_nzs(2, 'C', 1., 1., 1.))
obs("t_eff(0.,'C',0.,1.,1.)        [d_c = 0]", lambda: t_eff(0., 'C', 0., 1., 1.))
obs("t_eff(-1.,'C',1.,1.,1.)       [negative displacement]", lambda: t_eff(-1., 'C', 1., 1., 1.))
sys.exit(1 if tot['fail'] else 0)
