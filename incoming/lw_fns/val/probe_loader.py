import warnings, os, tempfile
import numpy as np
from eqsig import loader
def tryload(content, fn=loader.load_values_and_dt, **kw):
    p = '/tmp/lw_fns_fmt/val/_probe.txt'
    with open(p, 'w', newline='') as f:
        f.write(content)
    with warnings.catch_warnings(record=True) as w:
        warnings.simplefilter('always')
        try:
            r = fn(p, **kw)
            return ('ok', r, [str(x.message)[:60] for x in w])
        except Exception as e:
            return ('err', type(e).__name__, str(e)[:100])
tests = {
 'normal': "lab\n3 0.0100\n1.000000\n-2.500000\n0.000000",
 'n1': "lab\n1 0.0100\n1.000000",
 'n0': "lab\n0 0.0100",
 'n0nl': "lab\n0 0.0100\n",
 'one line': "lab",
 'empty': "",
 'hdr one tok': "lab\n3\n1.0\n2.0",
 'hdr bad dt': "lab\n3 abc\n1.0\n2.0",
 'blank lines': "lab\n3 0.01\n1.0\n\n2.0\n   \n3.0\n",
 'comment line': "lab\n3 0.01\n1.0\n#2.0\n3.0",
 'comment inline': "lab\n3 0.01\n1.0\n2.0 # hi\n3.0",
 'nan cell': "lab\n3 0.01\n1.0\nabc\n3.0",
 'two cols': "lab\n3 0.01\n1.0,5\n2.0,6\n3.0,7",
 'two cols ragged': "lab\n3 0.01\n1.0,5\n2.0\n3.0,7",
 'spaces': "lab\n3 0.01\n  1.0  \n 2.0\n3.0 ",
 'label hash': "a # b\n3 0.01\n1.0\n2.0\n3.0",
 'label hash first': "# b\n3 0.01\n1.0\n2.0\n3.0",
 'label empty': "\n3 0.01\n1.0\n2.0\n3.0",
 'label comma': "a,b\n3 0.01\n1.0\n2.0\n3.0",
 'hdr comma': "lab\n3 0.01,x\n1.0\n2.0\n3.0",
 'hdr hash': "lab\n3 0.01 # c\n1.0\n2.0\n3.0",
 'hdr hash first': "lab\n#3 0.01\n1.0\n2.0\n3.0",
 'hdr blank': "lab\n\n1.0\n2.0\n3.0",
 'label \\r': "a\rb\n3 0.01\n1.0\n2.0\n3.0",
 'label \\x0c': "a\x0cb\n3 0.01\n1.0\n2.0\n3.0",
 'label \\x0b': "a\x0bb\n3 0.01\n1.0\n2.0\n3.0",
 'label \\x1c': "a\x1cb\n3 0.01\n1.0\n2.0\n3.0",
 'label \\x85': "a\x85b\n3 0.01\n1.0\n2.0\n3.0",
 'label \\u2028': "a b\n3 0.01\n1.0\n2.0\n3.0",
 'exp': "lab\n3 1e-2\n1e3\n2.5E-1\n-3.e+0",
 'plus': "lab\n3 +0.01\n+1.0\n.5\n5.",
 'empty cell': "lab\n3 0.01\n1.0\n,4\n3.0",
 'inf': "lab\n3 0.01\n1.0\ninf\nnan",
 'underscore': "lab\n3 0.01\n1_0.0\n2\n3",
 'hex': "lab\n3 0.01\n0x10\n2\n3",
 'dt 3 toks': "lab\n3 0.01 7 8\n1.0\n2.0",
 'dt tabs': "lab\n3\t0.01\n1.0\n2.0",
 'crlf': "lab\r\n3 0.01\r\n1.0\r\n2.0",
 'trail nl': "lab\n2 0.01\n1.0\n2.0\n",
 'trail nls': "lab\n2 0.01\n1.0\n2.0\n\n\n",
 'data ws only n0': "lab\n0 0.01\n   \n",
 'all comments': "lab\n0 0.01\n#a\n#b",
}
for k, c in tests.items():
    print(k, '=>', tryload(c))
