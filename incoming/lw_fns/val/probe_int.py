import numpy as np, itertools, warnings
warnings.simplefilter('ignore')
from eqsig.fns.average import calc_step_fn_vals_error, calc_step_fn_steps_vals
found = 0
for n in (3, 4, 5):
    for v in itertools.product(range(-2, 4), repeat=n):
        vi = np.array(v); vf = np.array(v, dtype=float)
        ei = calc_step_fn_vals_error(vi); ef = calc_step_fn_vals_error(vf)
        ai, af = int(np.argmin(ei)), int(np.argmin(ef))
        if ai != af:
            li = calc_step_fn_steps_vals(vi); lf = calc_step_fn_steps_vals(vf)
            print(v, 'int err', ei, 'float err', ef, 'split', ai, af, 'levels', li, lf)
            found += 1
            if found >= 4: raise SystemExit
