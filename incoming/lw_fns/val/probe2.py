import sys
sys.path.insert(0, '/tmp/lw_fns_fmt/val')
from probe_loader import tryload
import eqsig
from eqsig import loader
tests = {
 'hdr "3 0.01 #"': "lab\n3 0.01 #\n1.0\n2.0\n3.0",
 'hdr "3 0.01 #\\t"': "lab\n3 0.01 #\t\n1.0\n2.0\n3.0",
 'hdr "3 0.01 #,"': "lab\n3 0.01 #,\n1.0\n2.0\n3.0",
 'hdr "3 0.01 #a#b"': "lab\n3 0.01 #a#b\n1.0\n2.0\n3.0",
 'hdr "\\t3 0.01"': "lab\n\t3 0.01\n1.0\n2.0\n3.0",
 'hdr ",3 0.01"': "lab\n, 3 0.01\n1.0\n2.0\n3.0",
 'hdr "\\t,3 0.01"': "lab\n\t, 3 0.01\n1.0\n2.0\n3.0",
 'hdr "\\t"+ws dt': "lab\n\t\n1 0.5\n2.0\n3.0",
 'cell \\x1f': "lab\n3 0.01\n\x1f1.0\n2.0\n3.0",
 'cell \\xa0': "lab\n3 0.01\n\xa01.0\n2.0\n3.0",
 'cell tab': "lab\n3 0.01\n\t1.0\t\n2.0\n3.0",
 'cell \\x0b': "lab\n3 0.01\n\x0b1.0\x0c\n2.0\n3.0",
 'cell arabic': "lab\n3 0.01\n١٢\n2.0\n3.0",
 'dt \\xa0 sep': "lab\n3\xa00.01\n1.0\n2.0\n3.0",
 'dt \\x1f sep': "lab\n3\x1f0.01\n1.0\n2.0\n3.0",
 'dt arabic': "lab\n3 ١٢\n1.0\n2.0\n3.0",
 'dt inf': "lab\n3 inf\n1.0\n2.0\n3.0",
 'dt 1_0': "lab\n3 1_0\n1.0\n2.0\n3.0",
 'cell 1e400': "lab\n3 0.01\n1e400\n2.0\n3.0",
 'cell "1.0 2.0"': "lab\n3 0.01\n1.0 2.0\n2.0\n3.0",
 'cell "-"': "lab\n3 0.01\n-\n2.0\n3.0",
 'cell "."': "lab\n3 0.01\n.\n2.0\n3.0",
 'cell "1e"': "lab\n3 0.01\n1e\n2.0\n3.0",
 'cell "1e+"': "lab\n3 0.01\n1e+\n2.0\n3.0",
 'cell "e5"': "lab\n3 0.01\ne5\n2.0\n3.0",
 'cell "+-1"': "lab\n3 0.01\n+-1\n2.0\n3.0",
 'cell "- 1"': "lab\n3 0.01\n- 1\n2.0\n3.0",
 'cell "1.2.3"': "lab\n3 0.01\n1.2.3\n2.0\n3.0",
 'cell ".e1"': "lab\n3 0.01\n.e1\n2.0\n3.0",
 'cell "1.e1"': "lab\n3 0.01\n1.e1\n.5e1\n3.0",
 'cell "Infinity"': "lab\n3 0.01\n-Infinity\n+NaN\n3.0",
 'cell "1__0"': "lab\n3 0.01\n1__0\n2\n3.0",
 'cell "_1"': "lab\n3 0.01\n_1\n2\n3.0",
 'cell "1_"': "lab\n3 0.01\n1_\n2\n3.0",
 'cell "1_.5"': "lab\n3 0.01\n1_.5\n2\n3.0",
 'cell "1e1_0"': "lab\n3 0.01\n1e1_0\n2\n3.0",
 'line "  ,5"': "lab\n3 0.01\n1\n  ,5\n3.0",
 'line \\r in middle': "lab\n3 0.01\n1\r2\n3.0",
 'data \\x0c': "lab\n3 0.01\n1\x0c2\n3.0",
 'lone \\r hdr': "lab\r3 0.01\r1\r2",
 'nul': "lab\n3 0.01\n1\x002\n3.0",
}
for k, c in tests.items():
    print(k, '=>', tryload(c))
base = "my label, x # y\n2 0.0100\n1.500000\n-2.000000"
for fn, kw in [(loader.load_sig, {}), (loader.load_sig, {'m': -2.5}), (loader.load_asig, {}), (loader.load_asig, {'load_label': True, 'm': 2.0}),
           (loader.load_signal, {}), (loader.load_signal, {'astype': 'signal'}), (loader.load_signal, {'astype': 'acc_sig'})]:
    r = tryload(base, fn, **kw)
    o = r[1]
    print(fn.__name__, kw, r[0], type(o).__name__, getattr(o, 'label', None), getattr(o, 'values', None), getattr(o, 'dt', None), r[2])
for c in ["l\n1 0.01\n3.5", "l\n0 0.01", "\n1 0.01\n3.5", "a\x0cb\n1 0.01\n3.5"]:
  for fn, kw in [(loader.load_sig, {}), (loader.load_asig, {'load_label': True}), (loader.load_signal, {'astype': 'signal'}), (loader.load_signal, {'astype': 'acc_sig'})]:
    r = tryload(c, fn, **kw)
    o = r[1]
    print(repr(c), fn.__name__, kw, r[0], type(o).__name__ if r[0]=='ok' else r[1:], repr(getattr(o, 'label', None)), getattr(o, 'values', None), getattr(o, 'dt', None))
