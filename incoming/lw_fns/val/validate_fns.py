"""Differential validation of EqsigVerif/Model/Fns.lean against eqsig (tree /tmp/repo_fixed).
run: cd /tmp/repo_fixed && PYTHONPATH=/tmp/repo_fixed /venv/bin/python /tmp/lw_fns/val/validate_fns.py
"""
import subprocess, sys, random, warnings, math
from fractions import Fraction as Fr
import numpy as np
warnings.simplefilter('ignore')
from eqsig.fns.generic import interp2d, interp_left
from eqsig.fns.average import calc_roll_av_vals, calc_step_fn_vals_error, calc_step_fn_steps_vals

LEAN_DIR = '/tmp/lw_fns'
rnd = random.Random(20260926)

def fr(x):
    return Fr(float(x))
def tok(q):
    q = Fr(q)
    return str(q.numerator) if q.denominator == 1 else f"{q.numerator}/{q.denominator}"
def toks(l):
    return " ".join(tok(v) for v in l)
def dy(lo=-8, hi=8, k=3):
    """random dyadic with k fractional bits"""
    return rnd.randint(lo * 2**k, hi * 2**k) / 2**k

cases = []   # (request line, python thunk returning list-of-lists of floats/None, label)

def py_outcome(th):
    try:
        return ('ok', th())
    except AssertionError:
        return ('err', 'AssertionError')
    except Exception as e:
        return ('err', type(e).__name__)

# ---------------------------------------------------------------- interp2d
def add_interp2d(x, xf, f):
    nr = len(f); w = len(f[0]) if nr else 0
    flat = [v for r in f for v in r]
    req = f"interp2d|{toks(x)}|{toks(xf)}|{nr}|{w}|{toks(flat)}"
    def th():
        r = interp2d(np.array(x, dtype=float), np.array(xf, dtype=float), np.array(f, dtype=float).reshape(nr, w))
        return [list(row) for row in r]
    cases.append((req, th, 'interp2d'))

def inc_nodes(n, k=3):
    xs = sorted(set(dy(-8, 8, k) for _ in range(n * 3)))
    rnd.shuffle(xs); xs = sorted(xs[:n])
    return xs
for it in range(140):
    n = rnd.choice([1, 1, 2, 2, 3, 4, 5, 7])
    xf = inc_nodes(n)
    n = len(xf)
    w = rnd.choice([1, 2, 3])
    f = [[dy() for _ in range(w)] for _ in range(n)]
    x = []
    for _ in range(rnd.randint(0, 6)):
        c = rnd.random()
        if c < 0.25: x.append(rnd.choice(xf))                      # on a node
        elif c < 0.45 and n > 1:
            i = rnd.randrange(n - 1); x.append((xf[i] + xf[i + 1]) / 2)   # exactly midway (argmin tie)
        elif c < 0.6: x.append(xf[0] - rnd.choice([0.125, 1, 5]))  # below
        elif c < 0.75: x.append(xf[-1] + rnd.choice([0.125, 1, 5]))  # above
        else: x.append(dy(-9, 9, 4))
    add_interp2d(x, xf, f)
# error / odd cases
add_interp2d([1.0], [], [])
add_interp2d([], [], [])
add_interp2d([], [1.0], [[1.0, 2.0]])
add_interp2d([1.0], [1.0, 2.0], [[0.0, 0.0]])          # f too short -> IndexError
add_interp2d([1.0, 5.0], [1.0, 2.0], [[1.0, 2], [3, 4], [5, 6]])   # f longer than xf
add_interp2d([0.5, 1.5, 2.5], [1.0, 1.0, 2.0], [[1.0], [2.0], [3.0]])   # repeated node (denom = 0 inside)
add_interp2d([0.5, 1.5, 2.5, 1.0, 2.0], [2.0, 1.0], [[1.0], [2.0]])   # decreasing nodes (denom < 0)
add_interp2d([0.5, 1.0, 1.5, 3.0, 2.0, 2.5], [1.0, 3.0, 2.0], [[1.0], [2.0], [4.0]])   # unsorted
add_interp2d([1.0 + 2**-40, 1.0, 1.0 + 2**-41], [1.0, 1.0 + 2**-40], [[0.0], [1.0]])  # gap < 1e-10 (clip active)

# ---------------------------------------------------------------- interp_left
def add_interp_left(x0, x, y, scalar=False):
    hy = 'T' if y is not None else 'F'
    if scalar:
        req = f"interp_left_scalar|{tok(x0)}|{toks(x)}|{hy}|{toks(y or [])}"
        def th():
            return [[interp_left(x0, x, y)]]
    else:
        req = f"interp_left|{toks(x0)}|{toks(x)}|{hy}|{toks(y or [])}"
        def th():
            return [list(interp_left(list(x0), x, y))]
    cases.append((req, th, 'interp_left'))
for it in range(120):
    n = rnd.choice([1, 2, 3, 4, 6])
    x = sorted(dy(-4, 4, 2) for _ in range(n))       # non-decreasing, ties possible
    y = None if rnd.random() < 0.3 else [dy() for _ in range(n)]
    if rnd.random() < 0.1 and y is not None and n > 1: y = y[:-1]   # short y -> possible IndexError
    m = rnd.randint(1, 5)
    x0 = []
    for _ in range(m):
        c = rnd.random()
        if c < 0.3: x0.append(rnd.choice(x))
        elif c < 0.4: x0.append(x[0] - 0.25)           # below -> AssertionError
        elif c < 0.55: x0.append(x[-1] + rnd.choice([0, 0.25, 3]))
        else: x0.append(dy(-4, 5, 3))
    if rnd.random() < 0.35:
        add_interp_left(x0[0], x, y, scalar=True)
    else:
        add_interp_left(x0, x, y)
add_interp_left([], [1.0, 2.0], None)
add_interp_left([], [], None)
add_interp_left([1.0], [], None)
add_interp_left([1.0, 2.5], [1.0, 2.0, 3.0], [5.0, 6.0])
add_interp_left(2.0, [1.0, 2.0, 2.0, 3.0], None, scalar=True)

# ---------------------------------------------------------------- calc_roll_av_vals
def add_roll(v, steps, mode):
    req = f"roll_av|{toks(v)}|{steps}|{mode}"
    def th():
        return [list(calc_roll_av_vals(np.array(v, dtype=float), steps, mode=mode))]
    cases.append((req, th, 'roll_av'))
for it in range(150):
    n = rnd.choice([1, 2, 3, 4, 5, 8, 13])
    v = [dy() for _ in range(n)]
    if rnd.random() < 0.15: v = [v[0]] * n        # constant
    steps = rnd.choice([1, 2, 4, 8] if rnd.random() < 0.5 else list(range(1, n + 4)))
    add_roll(v, steps, rnd.choice(['forward', 'backward', 'centre']))
for mode in ['forward', 'backward', 'centre']:
    add_roll([], 1, mode); add_roll([1.0], 0, mode); add_roll([], 0, mode); add_roll([1.0, 2.0, 4.0], 5, mode)

# ---------------------------------------------------------------- calc_step_fn_vals_error
def add_err(v, p, d):
    req = f"step_err|{toks(v)}|{p}|{d}"
    def th():
        return [list(calc_step_fn_vals_error(np.array(v, dtype=float), pow=p, dir=None if d == 'none' else d))]
    cases.append((req, th, 'step_err'))
for it in range(180):
    n = rnd.choice([1, 2, 3, 4, 4, 5, 8, 8, 16])
    c = rnd.random()
    if c < 0.25: v = [dy(-8, 0) for _ in range(n)]           # all non-positive
    elif c < 0.4: v = [float(rnd.randint(-3, 3)) for _ in range(n)]   # plateaus / ties
    else: v = [dy() for _ in range(n)]
    add_err(v, rnd.choice([0, 1, 1, 2, 2, 3, 4]), rnd.choice(['none', 'up', 'down']))
add_err([], 1, 'none'); add_err([], 2, 'up')
add_err([-1.0, -2, -3, 4, 5, 6], 1, 'none')     # the F20-1 witness of DESIGN (fixed tree: 18,13,4,...)
add_err([-1.0, -2, -3, 4, 5, 6], 3, 'none')

# ---------------------------------------------------------------- calc_step_fn_steps_vals
def add_lev(v, ind):
    req = f"step_levels|{toks(v)}|{'F' if ind is None else 'T'}|{'' if ind is None else ind}"
    def th():
        pre, post = calc_step_fn_steps_vals(np.array(v, dtype=float), ind)
        return [[pre], [post]]
    cases.append((req, th, 'step_levels'))
for it in range(120):
    n = rnd.choice([1, 2, 3, 4, 5, 8, 9])
    v = [dy() for _ in range(n)] if rnd.random() < 0.7 else [float(rnd.randint(-2, 2)) for _ in range(n)]
    ind = None if rnd.random() < 0.5 else rnd.randint(-n - 2, n + 2)
    add_lev(v, ind)
add_lev([], None); add_lev([], 0); add_lev([1.0], None)

# ---------------------------------------------------------------- run
reqs = "\n".join(c[0] for c in cases) + "\n"
proc = subprocess.run(['lake', 'env', 'lean', '--run', 'val/FnsDriver.lean'], cwd=LEAN_DIR, input=reqs,
                      capture_output=True, text=True)
lines = [l for l in proc.stdout.splitlines() if l and not l.startswith('WARNING')]
assert len(lines) == len(cases), (len(lines), len(cases), proc.stderr[:2000])

def parse_tok(t):
    return None if t == 'nan' else Fr(t)

stats = {}
fail = 0
for (req, th, lab), resp in zip(cases, lines):
    st = stats.setdefault(lab, dict(n=0, exact=0, err=0, maxrel=0.0))
    st['n'] += 1
    kind, val = py_outcome(th)
    parts = resp.split('|')
    ok = True
    if parts[0] == 'bad':
        ok = False
    elif kind == 'err':
        st['err'] += 1
        ok = (parts[0] == 'err' and parts[1] == val)
    else:
        if parts[0] != 'ok':
            ok = False
        else:
            outs = [[parse_tok(t) for t in p.split()] for p in parts[1:]]
            if outs == [[]] and val == []: outs = []
            if len(outs) != len(val): ok = False
            else:
                allexact = True
                for mo, po in zip(outs, val):
                    if len(mo) != len(po): ok = False; break
                    for a, b in zip(mo, po):
                        if a is None or (isinstance(b, float) and math.isnan(b)):
                            if not (a is None and math.isnan(b)): ok = False
                            continue
                        b = fr(b)
                        if a != b:
                            allexact = False
                            rel = abs(a - b) / max(abs(a), Fr(1))
                            st['maxrel'] = max(st['maxrel'], float(rel))
                            # float(a) must be within 8 ulp-ish of the python double
                            if rel > Fr(1, 10**13): ok = False
                if ok and allexact: st['exact'] += 1
    if not ok:
        fail += 1
        print('MISMATCH', lab, req, '\n   lean:', resp, '\n   py  :', kind, val)

for lab, st in stats.items():
    print(f"{lab:12s} cases={st['n']:4d} raised={st['err']:3d} bit-exact={st['exact']:4d} "
          f"max rel gap of the inexact ones={st['maxrel']:.2e}")
print('FAILURES', fail)
sys.exit(1 if fail else 0)
