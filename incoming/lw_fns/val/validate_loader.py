"""Differential validation of EqsigVerif/Prelude/Fmt.lean + EqsigVerif/Model/Loader.lean against Python / eqsig
(tree /tmp/repo_fixed).
run: cd /tmp/repo_fixed && PYTHONPATH=/tmp/repo_fixed /venv/bin/python /tmp/lw_fns/val/validate_loader.py
"""
import subprocess, sys, random, warnings, math, os, tempfile, shutil
from fractions import Fraction as Fr
import numpy as np
warnings.simplefilter('ignore')
import eqsig
from eqsig import loader

LEAN_DIR = '/tmp/lw_fns'
rnd = random.Random(20260926)
TMP = tempfile.mkdtemp(prefix='c16_', dir='/tmp')

def tok(q):
    q = Fr(q)
    return str(q.numerator) if q.denominator == 1 else f"{q.numerator}/{q.denominator}"
def toks(l):
    return " ".join(tok(Fr(float(v))) for v in l)
def cps(s):
    return " ".join(str(ord(c)) for c in s)
def uncps(t):
    return "".join(chr(int(x)) for x in t.split())

cases = []   # (request, checker(resp_parts) -> None | error string, group)

def py_outcome(th):
    try:
        return ('ok', th())
    except Exception as e:
        return ('err', type(e).__name__)

# ------------------------------------------------------------------ (i) fmtFixed / fmtInt vs Python % formatting
def add_fmt(x, d):
    x = float(x)
    want = ('%.' + str(d) + 'f') % x
    def chk(parts):
        got = uncps(parts[1]) if len(parts) > 1 else ''
        return None if (parts[0] == 'ok' and got == want) else f"x={x!r} d={d} want {want!r} got {parts}"
    cases.append((f"fmt_fixed|{tok(Fr(x))}|{d}", chk, f'fmt %.{d}f'))

fmt_vals = [0.0, 1.0, -1.0, 0.5, -0.5, 1.5, 2.5, -2.5, 3.5, 1e-9, -1e-9, -1e-7, 4.9e-7, 5e-7, 5.1e-7, -5e-7, -4.9999e-7,
            1e6, -1e6, 1234567.891, 1e15, -1e15, 123456789012345.67, 1e22, 2.0**70, 0.1, 0.2, 0.3, 0.01, 0.005, 0.0001,
            0.99994, 0.99996, 0.99995, 0.999995, 0.9999995, 9.9999995, 99.99995, 99.99994999, 9.99995, 0.00005, 0.00015,
            0.00025, 5e-324, 2.2250738585072014e-308, 1.7976931348623157e308 if False else 1e300, 100.0, 12.0]
# true ties: odd n / 2^(d+1)-ish dyadics whose decimal expansion has exactly d+1 decimals ending in 5
for n in range(-41, 42, 2):
    fmt_vals.append(n / 128)          # 7 decimals ending in 5: tie at the 6th digit
    fmt_vals.append(n / 32)           # 5 decimals ending in 5: tie at the 4th digit
    fmt_vals.append(n / 2)            # tie for %.0f
    fmt_vals.append(1000 + n / 128)
    fmt_vals.append(n / 128 * 3)
for x in list(fmt_vals):
    if x != 0 and abs(x) < 1e300:
        fmt_vals.append(np.nextafter(x, np.inf)); fmt_vals.append(np.nextafter(x, -np.inf))
for _ in range(250):
    e = rnd.choice([-8, -6, -5, -3, -1, 0, 1, 3, 6, 9, 14])
    fmt_vals.append(rnd.uniform(-1, 1) * 10.0**e)
    fmt_vals.append(round(rnd.uniform(-100, 100), 6))           # doubles nearest to 6-decimal numbers
    fmt_vals.append(round(rnd.uniform(-100, 100), 6) + 5e-7)    # near (not exact) ties
for x in fmt_vals:
    add_fmt(x, 6); add_fmt(x, 4)
for x in fmt_vals[:250]:
    add_fmt(x, 0); add_fmt(x, 1)
for n in [0, 1, 7, 10, 50, 99, 100, 12345, 10**12, -3, -10]:
    def chk(parts, n=n):
        return None if parts[0] == 'ok' and uncps(parts[1]) == '%i' % n else f"fmt_int {n} {parts}"
    cases.append((f"fmt_int|{n}", chk, 'fmt %i'))

# ------------------------------------------------------------------ parseDec vs float()
def add_parse(s):
    try:
        want = float(s); kind = 'ok'
    except ValueError:
        want = None; kind = 'err'
    def chk(parts):
        if parts[0] != 'ok': return f"parse {s!r}: {parts}"
        if parts[1] == 'none':
            return None if kind == 'err' else f"parse {s!r}: model none, python {want!r}"
        if kind == 'err': return f"parse {s!r}: model {parts[1]}, python ValueError"
        return None if float(Fr(parts[1])) == want else f"parse {s!r}: model {parts[1]} python {want!r}"
    cases.append((f"parse_dec|{cps(s)}", chk, 'parseDec'))
for s in ["12", "12.", ".5", "12.5", "-12.5", "+3", " 7 ", "\t-0.000000\n", "1e3", "1E3", "1e-3", "1e+3", "1.5e2", ".5e1", "5.e1",
          "0.0100", "100.0000", "0.007812", "-0.023438", "1000000000000000.000000", "", " ", ".", "-", "+", "e5", "1e", "1e+", "1e-",
          "+-1", "- 1", "1.2.3", ".e1", "1 2", "0x10", "1,5", "abc", "1.0f", "--1", "1e1.5", "1ee2", "00012", "-.5", "+.5e-2", "1e05",
          "0.1", "0.3", "123456789.123456789", "\x0b1\x0c", "1\x00"]:
    add_parse(s)
for x in fmt_vals[:200]:
    add_parse('%.6f' % x); add_parse(repr(float(x)))

# ------------------------------------------------------------------ (ii)+(iii) files
LABELS = ["lab", "my label", "a, b", "# hash first", "x # y", "", " lead", "trail ", "tab\there", "ünï cödé µ", "1 0.5", "a,b#c,d", "#"]
DTS = [1e-4, 0.005, 0.01, 0.02, 0.99994, 0.99996, 1.0, 2.5, 12.0, 100.0]
def rand_values(n):
    pool = [0.0, 1e-9, -1e-9, 1 / 128, -3 / 128, 5 / 128, 1e6, -1e6, 0.5, -2.5, 1234.5678915, 4.9e-7, -5.1e-7]
    out = []
    for _ in range(n):
        c = rnd.random()
        if c < 0.4: out.append(rnd.choice(pool))
        elif c < 0.7: out.append(rnd.uniform(-3, 3))
        else: out.append(rnd.uniform(-1, 1) * 10.0 ** rnd.choice([-7, -4, 2, 5, 7]))
    return out
file_cases = []
fid = 0
for n in [1, 2, 3, 50]:
    for dt in DTS + [rnd.uniform(1e-4, 100) for _ in range(3)] + [rnd.uniform(1e-4, 0.05) for _ in range(2)]:
        file_cases.append((rand_values(n), dt, rnd.choice(LABELS)))
for lab in LABELS:
    file_cases.append((rand_values(rnd.choice([1, 2, 3])), rnd.choice(DTS), lab))
file_cases.append(([], 0.01, "empty record"))        # n = 0 (outside the property's domain, model must still agree)
file_cases.append(([1.0, 2.0], -0.5, "negative dt")) # outside the property's domain
file_cases.append(([1.0, 2.0], 0.00004, "tiny dt"))  # rounds to 0.0000

def values_checker(py_vals, py_dt, parts, what, off=1):
    """parts[off] = values, parts[off+1] = dt ; exact decimal of the model must round to python's double"""
    mv = [Fr(t) for t in parts[off].split()]
    mdt = Fr(parts[off + 1])
    if len(mv) != len(py_vals): return f"{what}: length model {len(mv)} python {len(py_vals)}"
    for a, b in zip(mv, py_vals):
        if float(a) != float(b): return f"{what}: value model {a} python {b!r}"
    if float(mdt) != py_dt: return f"{what}: dt model {mdt} python {py_dt!r}"
    return None

def add_file_case(values, dt, label):
    global fid
    fid += 1
    p = os.path.join(TMP, f"f{fid}.txt")
    loader.save_values_and_dt(p, np.array(values, dtype=float), dt, label)
    raw = open(p, 'rb').read()
    # (ii) bytes
    def chk_save(parts, raw=raw):
        if parts[0] != 'ok': return f"save_text: {parts}"
        got = uncps(parts[1] if len(parts) > 1 else '').encode('utf-8')
        return None if got == raw else f"save_text bytes differ: model {got!r} file {raw!r}"
    cases.append((f"save_text|{toks(values)}|{tok(Fr(float(dt)))}|{cps(label)}", chk_save, 'saveText bytes'))
    cases.append((f"save_signal|AccSignal|{toks(values)}|{tok(Fr(float(dt)))}|{cps(label)}", chk_save, 'save_signal bytes'))
    # (iii) load
    text = raw.decode('utf-8')
    add_load_case(text, p, f"file n={len(values)} dt={dt!r} label={label!r}")
    # the property itself, measured on the impl: |dt'-dt| <= 0.5e-4 (+ulp), |v'-v| <= 0.5e-6 (+ulp)
    pv, pdt = loader.load_values_and_dt(p)
    assert len(pv) == len(values), (len(pv), len(values))
    assert abs(Fr(pdt) - Fr(float(dt))) <= Fr(1, 20000) + Fr(abs(dt)) / 2**52, (pdt, dt)
    for a, b in zip(pv, values):
        assert abs(Fr(float(a)) - Fr(float(b))) <= Fr(1, 2000000) + abs(Fr(float(b))) / 2**52, (a, b)

def add_load_case(text, path, what):
    if path is None:
        global fid
        fid += 1
        path = os.path.join(TMP, f"m{fid}.txt")
        with open(path, 'w', newline='', encoding='utf-8') as f:
            f.write(text)
    kind, val = py_outcome(lambda: loader.load_values_and_dt(path))
    def chk(parts):
        if kind == 'err':
            return None if parts[0] == 'err' and parts[1] == val else f"{what}: python raises {val}, model {parts}"
        if parts[0] != 'ok': return f"{what}: python ok, model {parts}"
        while len(parts) < 3: parts.append('')
        return values_checker(list(val[0]), val[1], parts, what)
    cases.append((f"load_text|{cps(text)}", chk, 'loadText'))
    return path

for v, dt, lab in file_cases:
    add_file_case(v, dt, lab)

# malformed / unusual files (in the modelled domain: no inf/nan/underscore/non-ASCII number cells)
MALFORMED = {
    'one line': "lab", 'empty': "", 'hdr one tok': "lab\n3\n1.0\n2.0", 'hdr bad dt': "lab\n3 abc\n1.0\n2.0",
    'n0': "lab\n0 0.0100", 'n0 nl': "lab\n0 0.0100\n", 'blank lines': "lab\n3 0.01\n1.0\n\n2.0\n   \n3.0\n",
    'comment line': "lab\n3 0.01\n1.0\n#2.0\n3.0", 'comment inline': "lab\n3 0.01\n1.0\n2.0 # hi\n3.0",
    'bad cell': "lab\n3 0.01\n1.0\nabc\n3.0", 'two cols': "lab\n3 0.01\n1.0,5\n2.0,6\n3.0,7",
    'ragged': "lab\n3 0.01\n1.0,5\n2.0\n3.0,7", 'spaces': "lab\n3 0.01\n  1.0  \n 2.0\n3.0 ",
    'hdr comma': "lab\n3 0.01,x\n1.0\n2.0\n3.0", 'hdr hash': "lab\n3 0.01 # c\n1.0\n2.0\n3.0",
    'hdr hash first': "lab\n#3 0.01\n1.0\n2.0\n3.0", 'hdr blank': "lab\n\n1.0\n2.0\n3.0",
    'label cr': "a\rb\n3 0.01\n1.0\n2.0\n3.0", 'label ff': "a\x0cb\n3 0.01\n1.0\n2.0\n3.0",
    'label vt': "a\x0bb\n3 0.01\n1.0\n2.0\n3.0", 'label fs': "a\x1cb\n3 0.01\n1.0\n2.0\n3.0",
    'label nel': "a\x85b\n3 0.01\n1.0\n2.0\n3.0", 'label ls': "a b\n3 0.01\n1.0\n2.0\n3.0",
    'label ps': "a b\n1 0.5\n1.0\n2.0\n3.0", 'label gs': "a\x1db 7\n1 0.5\n1.0\n2.0\n3.0",
    'exp': "lab\n3 1e-2\n1e3\n2.5E-1\n-3.e+0", 'plus': "lab\n3 +0.01\n+1.0\n.5\n5.",
    'empty cell': "lab\n3 0.01\n1.0\n,4\n3.0", 'hex': "lab\n3 0.01\n0x10\n2\n3", 'dt 3 toks': "lab\n3 0.01 7 8\n1.0\n2.0",
    'dt tabs': "lab\n3\t0.01\n1.0\n2.0", 'crlf': "lab\r\n3 0.01\r\n1.0\r\n2.0", 'trail nl': "lab\n2 0.01\n1.0\n2.0\n",
    'trail nls': "lab\n2 0.01\n1.0\n2.0\n\n\n", 'ws only rows': "lab\n0 0.01\n   \n", 'all comments': "lab\n0 0.01\n#a\n#b",
    'hdr "#" end': "lab\n3 0.01 #\n1.0\n2.0\n3.0", 'hdr "#tab"': "lab\n3 0.01 #\t\n1.0\n2.0\n3.0", 'hdr "#,"': "lab\n3 0.01 #,\n1.0\n2.0\n3.0",
    'hdr "#a#b"': "lab\n3 0.01 #a#b\n1.0\n2.0\n3.0", 'hdr tab first': "lab\n\t3 0.01\n1.0\n2.0\n3.0", 'hdr comma first': "lab\n, 3 0.01\n1.0\n2.0\n3.0",
    'hdr tab only': "lab\n\t\n1 0.5\n2.0\n3.0", 'cell us': "lab\n3 0.01\n\x1f1.0\n2.0\n3.0", 'cell tab': "lab\n3 0.01\n\t1.0\t\n2.0\n3.0",
    'cell vt ff': "lab\n3 0.01\n\x0b1.0\x0c\n2.0\n3.0", 'dt nbsp sep': "lab\n3\xa00.01\n1.0\n2.0\n3.0", 'dt us sep': "lab\n3\x1f0.01\n1.0\n2.0\n3.0",
    'cell "1.0 2.0"': "lab\n3 0.01\n1.0 2.0\n2.0\n3.0", 'cell "-"': "lab\n3 0.01\n-\n2.0\n3.0", 'cell "."': "lab\n3 0.01\n.\n2.0\n3.0",
    'cell "1e"': "lab\n3 0.01\n1e\n2.0\n3.0", 'cell "e5"': "lab\n3 0.01\ne5\n2.0\n3.0", 'cell "1.2.3"': "lab\n3 0.01\n1.2.3\n2.0\n3.0",
    'cell "1.e1"': "lab\n3 0.01\n1.e1\n.5e1\n3.0", 'line "  ,5"': "lab\n3 0.01\n1\n  ,5\n3.0", 'cr in data': "lab\n3 0.01\n1\r2\n3.0",
    'ff in data': "lab\n3 0.01\n1\x0c2\n3.0", 'lone cr': "lab\r3 0.01\r1\r2", 'nul': "lab\n3 0.01\n1\x002\n3.0",
    'names empty 0 rows': "lab\n3 0.01 #\t", 'names empty 0 rows b': "lab\n3 0.01 #\t\n\n#x\n", 'names empty 1 row': "lab\n3 0.01 #\t\n5",
    'names "tab,a"': "lab\n3 0.01 #\t,a\n5", 'names ","': "lab\n3 0.01 #,\n5", 'label + blanks': "lab\n\n\n", 'hdr 1 tok no rows': "lab\n3\n",
    'hdr "#" no more': "lab\n3 0.01 #", 'bad cell + bad dt': "lab\n3 x\nabc", 'bad dt only': "lab\n3 x\n1.0", 'mixed crlf': "lab\r\n2 0.5\n1\r\n\r\n2\r",
    'cr cr lf': "lab\r\r\n2 0.5\n1\n2", 'nel in header': "lab\n2\x850.5\n1\n2", 'hash in label line only': "#\n2 0.5\n1\n2",
    'only newline': "\n", 'two newlines': "\n\n", 'hdr then comment names': "lab\n#\n2 0.5\n1\n2",
}
for k, t in MALFORMED.items():
    add_load_case(t, None, f"malformed[{k}]")

# declared OUT OF DOMAIN: the model must answer err|Other (python's outcome is only recorded, not compared)
OOD = {'cell inf': "lab\n3 0.01\n1.0\ninf\n3", 'cell -Infinity': "lab\n3 0.01\n-Infinity\n2\n3", 'cell NaN': "lab\n3 0.01\n+NaN\n2\n3",
       'cell 1_0.0': "lab\n3 0.01\n1_0.0\n2\n3", 'cell 1__0': "lab\n3 0.01\n1__0\n2\n3", 'cell arabic digits': "lab\n3 0.01\n\u0661\u0662\n2\n3",
       'cell nbsp': "lab\n3 0.01\n\xa01.0\n2\n3", 'cell latin1': "lab\n3 0.01\n1\xe9\n2", 'dt inf': "lab\n3 inf\n1\n2\n3",
       'dt 1_0': "lab\n3 1_0\n1\n2\n3", 'dt arabic': "lab\n3 \u0661\u0662\n1\n2\n3"}
ood_report = []
for k, t in OOD.items():
    fid += 1
    pth = os.path.join(TMP, f"o{fid}.txt")
    with open(pth, 'w', newline='', encoding='utf-8') as f: f.write(t)
    kind, val = py_outcome(lambda: loader.load_values_and_dt(pth))
    def chk(parts, k=k, kind=kind, val=val):
        ood_report.append(f"   out-of-domain[{k}]: model {'|'.join(parts)} ; python {kind} {val if kind == 'err' else (list(val[0]), val[1])}")
        return None if parts[:2] == ['err', 'Other'] else f"out-of-domain[{k}]: model should say err|Other, says {parts}"
    cases.append((f"load_text|{cps(t)}", chk, 'out-of-domain → Other'))

# the literal format strings of the source (the model hard-codes 4 and 6 decimals)
src = open(loader.__file__).read()
assert 'para = [label, "%i %.4f" % (len(values), dt)]' in src and 'para.append("%.6f" % values[i])' in src and '"\\n".join(para)' in src, "loader.py format strings changed"
assert "def __init__(self, values, dt, label='m1'" in open(eqsig.single.__file__).read()

# ------------------------------------------------------------------ (iv) entry points
def obj_checker(kind, val, m, what):
    def chk(parts):
        if kind == 'err':
            return None if parts[0] == 'err' and parts[1] == val else f"{what}: python raises {val}, model {parts}"
        if parts[0] != 'ok': return f"{what}: python ok, model {parts}"
        if val is None:
            return None if parts[1:] == ['None'] else f"{what}: python None, model {parts}"
        while len(parts) < 5: parts.append('')
        if parts[1] != type(val).__name__: return f"{what}: type model {parts[1]} python {type(val).__name__}"
        if uncps(parts[4]) != val.label: return f"{what}: label model {uncps(parts[4])!r} python {val.label!r}"
        mv = [Fr(t) for t in parts[2].split()]
        if len(mv) != len(val.values) or len(mv) != val.npts: return f"{what}: npts"
        for a, b in zip(mv, val.values):
            fa = float(a)
            if not (fa == b or abs(fa - b) <= abs(b) * 2**-52):      # float product vs exact: within 1 ulp
                return f"{what}: value model {a} python {b!r}"
        if float(Fr(parts[3])) != val.dt: return f"{what}: dt"
        return None
    return chk
entry_files = []
for v, dt, lab in file_cases[::5] + [([3.5], 0.01, "single"), ([], 0.01, "none at all"), ([1.5, -2.0], 2.5, "my label, x # y")]:
    fid += 1
    p = os.path.join(TMP, f"e{fid}.txt")
    loader.save_values_and_dt(p, np.array(v, dtype=float), dt, lab)
    entry_files.append((p, open(p, encoding='utf-8', newline='').read()))
for k in ['one line', 'hdr bad dt', 'bad cell', 'label ff', 'crlf', 'lone cr', 'hdr hash', 'n0']:
    fid += 1
    p = os.path.join(TMP, f"e{fid}.txt")
    with open(p, 'w', newline='', encoding='utf-8') as f: f.write(MALFORMED[k])
    entry_files.append((p, MALFORMED[k]))
for p, text in entry_files:
    for m in [1.0, -2.5, 0.0, 3.0]:
        kind, val = py_outcome(lambda: loader.load_sig(p, m=m))
        cases.append((f"load_sig|{cps(text)}|{tok(Fr(m))}", obj_checker(kind, val, m, f"load_sig m={m} {p}"), 'load_sig'))
        for ll in [False, True]:
            kind, val = py_outcome(lambda: loader.load_asig(p, load_label=ll, m=m))
            cases.append((f"load_asig|{cps(text)}|{'T' if ll else 'F'}|{tok(Fr(m))}",
                          obj_checker(kind, val, m, f"load_asig m={m} ll={ll} {p}"), 'load_asig'))
    for astype in ['sig', 'signal', 'acc_sig', '', 'Signal', 'asig']:
        kind, val = py_outcome(lambda: loader.load_signal(p, astype=astype))
        cases.append((f"load_signal|{cps(text)}|{cps(astype)}", obj_checker(kind, val, 1.0, f"load_signal {astype!r} {p}"), 'load_signal'))
kind, val = py_outcome(lambda: loader.load_signal(entry_files[0][0]))   # default astype
cases.append((f"load_signal|{cps(entry_files[0][1])}|{cps('sig')}", obj_checker(kind, val, 1.0, "load_signal default"), 'load_signal'))
# save_signal on a real object: bytes
for ty, cls in [('Signal', eqsig.Signal), ('AccSignal', eqsig.AccSignal)]:
    for v, dt, lab in [([0.5, -1 / 128, 3.0], 0.01, 'obj label'), ([7.25], 2.5, 'one')]:
        fid += 1
        p = os.path.join(TMP, f"s{fid}.txt")
        o = cls(np.array(v), dt, label=lab)
        loader.save_signal(p, o)
        raw = open(p, 'rb').read()
        def chk(parts, raw=raw):
            return None if parts[0] == 'ok' and uncps(parts[1]).encode('utf-8') == raw else f"save_signal: {parts} vs {raw!r}"
        cases.append((f"save_signal|{ty}|{toks(v)}|{tok(Fr(dt))}|{cps(lab)}", chk, 'save_signal bytes'))

# ------------------------------------------------------------------ run
reqs = "\n".join(c[0] for c in cases) + "\n"
proc = subprocess.run(['lake', 'env', 'lean', '--run', 'val/LoaderDriver.lean'], cwd=LEAN_DIR, input=reqs,
                      capture_output=True, text=True)
lines = [l for l in proc.stdout.split('\n') if l and not l.startswith('WARNING')]
assert len(lines) == len(cases), (len(lines), len(cases), proc.stderr[:2000])
stats = {}
fail = 0
for (req, chk, grp), resp in zip(cases, lines):
    st = stats.setdefault(grp, dict(n=0, err=0, fail=0))
    st['n'] += 1
    parts = resp.split('|')
    if parts[0] == 'err': st['err'] += 1
    msg = chk(parts) if parts[0] != 'bad' else f"protocol: {resp}"
    if msg is not None:
        fail += 1; st['fail'] += 1
        print('MISMATCH', grp, '::', msg)
for grp, st in stats.items():
    print(f"{grp:20s} cases={st['n']:5d} model-raised={st['err']:4d} failures={st['fail']}")
print("\n".join(ood_report))
print('TOTAL', len(cases), 'FAILURES', fail)
shutil.rmtree(TMP, ignore_errors=True)
sys.exit(1 if fail else 0)
