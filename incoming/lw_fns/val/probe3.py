import sys
sys.path.insert(0, '/tmp/lw_fns_fmt/val')
from probe_loader import tryload
tests = {
 'names empty, 0 rows': "lab\n3 0.01 #\t",
 'names empty, 0 rows b': "lab\n3 0.01 #\t\n\n#x\n",
 'names empty, 1 row': "lab\n3 0.01 #\t\n5",
 'names "\\t,a"': "lab\n3 0.01 #\t,a\n5",
 'names "\\t,\\t"': "lab\n3 0.01 #\t,\t\n5",
 'names ","': "lab\n3 0.01 #,\n5",
 'only label + blank': "lab\n\n\n",
 'label+hdr(1 tok) no rows': "lab\n3\n",
 'hdr "3 0.01 #" no more': "lab\n3 0.01 #",
 'bad cell then bad dt': "lab\n3 x\nabc",
 'bad dt only': "lab\n3 x\n1.0",
 'nonascii cell latin1': "lab\n3 0.01\n1é\n2",
 'nonascii cell >255': "lab\n3 0.01\n1‱\n2",
 'fullwidth digit cell': "lab\n3 0.01\n１\n2",
}
for k, c in tests.items():
    print(k, '=>', tryload(c))
