import EqsigVerif.Model.Fns
import EqsigVerif.Spec.Fns
import EqsigVerif.Lemmas.Fns
/-!
# C20 — Interpolation, averaging, step-fit helpers match their definitions (sub-claims a–e)

Models: `EqsigVerif/Model/Fns.lean`; specification vocabulary: `EqsigVerif/Spec/Fns.lean`.
(C20.f, the design-spectrum tables, is in `Props/C20f.lean`.)
-/
namespace EqsigVerif.Props.C20
open EqsigVerif EqsigVerif.Np EqsigVerif.Wire EqsigVerif.Model.Fns EqsigVerif.Spec.Fns EqsigVerif.Lemmas.Fns

/-! ## C20.a `interp2d` -/

/-- **C20.a** For strictly increasing nodes `xf` (every gap larger than the `1e-10` guard), a rectangular table `f`
of width `w` with at least one row per node, and *every* query array `x` (inside, on a node, outside):
`interp2d` succeeds and each output row `R` for the query `q`
* is the clamped column-wise linear interpolation of the table (`IsClampedLerp`: one of the three cases below applies),
* equals the first row whenever `q ≤ xf[0]`, the last node's row whenever `q ≥ xf[n-1]`,
* equals `(1-s)·f[i] + s·f[i+1]`, `s = (q - xf[i]) / (xf[i+1] - xf[i])`, for every bracket `xf[i] ≤ q ≤ xf[i+1]`. -/
theorem interp2d_spec (x xf : List ℚ) (f : List (List ℚ)) (w : Nat) (hne : xf ≠ []) (hg : GapNodes xf)
    (hf : xf.length ≤ f.length) (hw : ∀ r ∈ f, r.length = w) :
    ∃ rows, interp2d x xf f = .ok rows ∧
      List.Forall₂ (fun q R =>
        IsClampedLerp xf f hf q R ∧
        (∀ h0 : 0 < xf.length, q ≤ xf[0] → R = f[0]'(by omega)) ∧
        (∀ h0 : 0 < xf.length, xf[xf.length - 1] ≤ q → R = f[xf.length - 1]'(by omega)) ∧
        (∀ i (hi : i + 1 < xf.length), xf[i] ≤ q → q ≤ xf[i+1] →
          R = lerpRow ((q - xf[i]) / (xf[i+1] - xf[i])) (f[i]'(by omega)) (f[i+1]'(by omega)))) x rows := by
  obtain ⟨rows, hr, hfa⟩ := interp2d_clamped x xf f hne hg hf
  refine ⟨rows, hr, hfa.imp ?_⟩
  intro q R hR
  exact ⟨hR, fun h0 hx => clamped_low xf f hg hf w hw q R hR h0 hx,
    fun h0 hx => clamped_high xf f hg hf w hw q R hR h0 hx,
    fun i hi h1 h2 => clamped_mid xf f hg hf w hw q R hR i hi h1 h2⟩

/-- the docstring example of `interp2d`, plus queries on a node, midway (argmin tie) and outside -/
example : interp2d [1/2, 1, 11/5, 5/2, -1, 7, 3/2] [0, 1, 2, 3] [[0, 0, 0], [0, 1, 4], [2, 6, 2], [10, 10, 10]]
    = .ok [[0, 1/2, 2], [0, 1, 4], [18/5, 34/5, 18/5], [6, 8, 6], [0, 0, 0], [10, 10, 10], [1, 7/2, 3]] := by
  decide +kernel
example : GapNodes [0, 1, 2, 3] := by
  intro i h
  have : i = 0 ∨ i = 1 ∨ i = 2 := by simp at h; omega
  rcases this with rfl | rfl | rfl <;> norm_num [tol]
/-- without the rectangular-table hypothesis the statement fails (NumPy arrays are rectangular): `zipWith` truncates -/
example : interp2d [0] [0, 1] [[1, 2], [3]] = .ok [[1]] := by decide +kernel

/-! ## C20.b `interp_left` -/

/-- **C20.b** (array form). For a non-decreasing node array `x` (the domain of `np.searchsorted`), a non-empty
query array `x0s` and `y` at least as long as `x` (or `y = None`): the call raises `AssertionError` iff some
query lies below the first node; otherwise it returns, for every query `q`, `y[j]` (or `j` itself for
`y = None`) at the greatest node index `j` with `x[j] ≤ q`. -/
theorem interp_left_spec (x0s x : List ℚ) (y : Option (List ℚ)) (hx0 : x0s ≠ []) (hx : x ≠ [])
    (hs : x.Pairwise (· ≤ ·)) (hy : ∀ yv, y = some yv → x.length ≤ yv.length) :
    (interpLeft x0s x y = .error .AssertionError ↔ ∃ q ∈ x0s, q < x.head hx) ∧
    ((∀ q ∈ x0s, x.head hx ≤ q) → ∃ r, interpLeft x0s x y = .ok r ∧
      List.Forall₂ (fun q v => ∃ j, IsLeftNode x q j ∧ leftVal y j v) x0s r) :=
  ⟨interpLeft_assert x0s x y hx0 hx hs hy, interpLeft_ok x0s x y hx0 hx hs hy⟩

example : interpLeft [1, 5/2, 2, 7] [1, 2, 2, 3] (some [5, 6, 7, 8]) = .ok [5, 7, 7, 8] := by decide +kernel
example : interpLeft [1, 5/2, 2, 7] [1, 2, 2, 3] none = .ok [0, 2, 2, 3] := by decide +kernel
example : interpLeft [1, 1/2] [1, 2, 2, 3] none = .error .AssertionError := by decide +kernel
example : ([1, 2, 2, 3] : List ℚ).Pairwise (· ≤ ·) := by decide +kernel

/-- **C20.b** (scalar form): `AssertionError` iff the query is below the first node, else the value at the
greatest node `≤` the query. -/
theorem interp_left_scalar_spec (q : ℚ) (x : List ℚ) (y : Option (List ℚ)) (hx : x ≠ [])
    (hs : x.Pairwise (· ≤ ·)) (hy : ∀ yv, y = some yv → x.length ≤ yv.length) :
    (interpLeftScalar q x y = .error .AssertionError ↔ q < x.head hx) ∧
    (x.head hx ≤ q → ∃ v, interpLeftScalar q x y = .ok v ∧ ∃ j, IsLeftNode x q j ∧ leftVal y j v) := by
  have hne : [q] ≠ [] := by simp
  constructor
  · constructor
    · intro herr
      by_contra hc
      obtain ⟨r, hr, hf⟩ := interpLeft_ok [q] x y hne hx hs hy (by simpa using not_lt.mp hc)
      cases hf with
      | cons hp ht =>
        cases ht
        unfold interpLeftScalar at herr
        rw [hr] at herr
        cases herr
    · intro h
      have := (interpLeft_assert [q] x y hne hx hs hy).2 ⟨q, by simp, h⟩
      unfold interpLeftScalar
      rw [this]; rfl
  · intro h
    obtain ⟨r, hr, hf⟩ := interpLeft_ok [q] x y hne hx hs hy (by simpa using h)
    cases hf with
    | cons hp ht =>
      cases ht
      rename_i v
      refine ⟨v, ?_, hp⟩
      unfold interpLeftScalar
      rw [hr]; rfl

example : interpLeftScalar 2 [1, 2, 2, 3] none = .ok 2 := by decide +kernel
example : interpLeftScalar (1/2) [1, 2, 2, 3] none = .error .AssertionError := by decide +kernel

/-! ## C20.c `calc_roll_av_vals` -/

/-- **C20.c** For a non-empty series and `steps ≥ 1`, the rolling average is, sample by sample, the mean of the
edge-replicated series over the window of `steps` samples that starts `windowOffset` samples before the
current one (`0` forward, `steps−1` backward, `⌊steps/2⌋` centred); in particular the length is kept. -/
theorem roll_av_spec (values : List ℚ) (hne : values ≠ []) (steps : Nat) (hs : 1 ≤ steps) (mode : Mode) :
    rollAv values steps mode = .ok ((List.range values.length).map
      (fun (i : Nat) => windowMean values steps ((i : Int) - (windowOffset steps mode : Int)))) :=
  rollAv_spec values hne steps hs mode

example : rollAv [1, 2, 4] 5 .centre = .ok [9/5, 12/5, 3] := by decide +kernel
example : rollAv [1, 2, 4] 2 .forward = .ok [3/2, 3, 4] := by decide +kernel
example : rollAv [1, 2, 4] 2 .backward = .ok [1, 3/2, 3] := by decide +kernel

/-- **C20.c** length kept -/
theorem roll_av_length (values : List ℚ) (hne : values ≠ []) (steps : Nat) (hs : 1 ≤ steps) (mode : Mode) :
    ∃ r, rollAv values steps mode = .ok r ∧ r.length = values.length :=
  ⟨_, rollAv_spec values hne steps hs mode, by simp⟩

example : ∃ r, rollAv [1, 2, 4, -3] 3 .backward = .ok r ∧ r.length = 4 :=
  roll_av_length [1, 2, 4, -3] (by simp) 3 (by omega) .backward

/-- **C20.c** constants are preserved -/
theorem roll_av_const (n : Nat) (hn : 0 < n) (c : ℚ) (steps : Nat) (hs : 1 ≤ steps) (mode : Mode) :
    rollAv (List.replicate n c) steps mode = .ok (List.replicate n c) :=
  rollAv_const n hn c steps hs mode

example : rollAv [-7/2, -7/2, -7/2] 4 .centre = .ok [-7/2, -7/2, -7/2] :=
  roll_av_const 3 (by omega) (-7/2) 4 (by omega) .centre

/-- **C20.c** `steps = 1` is the identity -/
theorem roll_av_one (values : List ℚ) (hne : values ≠ []) (mode : Mode) :
    rollAv values 1 mode = .ok values :=
  rollAv_one values hne mode

example : rollAv [1, -2, 4] 1 .centre = .ok [1, -2, 4] := roll_av_one _ (by simp) _

/-! ## C20.d `calc_step_fn_vals_error` -/

/-- **C20.d** For a non-empty (float) series and every power `p ∈ ℕ`: entry `k` of the error array is
`Σ_{i≤k} |vᵢ − μ_pre|ᵖ + Σ_{i>k} |vᵢ − μ_post|ᵖ` with `μ_pre`, `μ_post` the means of the samples `0..k` and `k+1..`
(`stepFitErr`); this includes the last entry, where the second group is empty. -/
theorem step_err_spec (values : List ℚ) (hne : values ≠ []) (p : Nat) :
    stepErr values p .none = .ok ((List.range values.length).map (stepFitErr values p)) :=
  stepErr_none values hne p

/-- the DESIGN witness of finding F20-1: with the fix the `p = 1` error is 18, 13, 4, … -/
example : stepErr [-1, -2, -3, 4, 5, 6] 1 .none = .ok [18, 13, 4, 10, 78/5, 21] := by decide +kernel
example : stepErr [-1, -2, -3, 4, 5, 6] 3 .none = .ok [288, 1009/4, 4, 221/2, 24102/125, 1197/4] := by
  decide +kernel

/-- **C20.d** the last entry is the one-level error `Σ |vᵢ − mean(v)|ᵖ` -/
theorem step_err_last (values : List ℚ) (hne : values ≠ []) (p : Nat) :
    stepFitErr values p (values.length - 1) = sumAbsDev values (mean values) p := by
  have h1 : values.length - 1 + 1 = values.length := by
    have := List.length_pos_iff.mpr hne; omega
  unfold stepFitErr
  rw [h1, List.take_length, List.drop_length]
  simp [sumAbsDev]

example : stepFitErr [-1, -2, -3, 4, 5, 6] 1 5 = 21 := by decide +kernel

/-- **C20.d** the `dir` rule: with `M = max(err)`, entries whose left mean (samples `0..k`) is below (`'down'`) /
above (`'up'`) the mean of the samples `k..` (the code includes sample `k` on both sides here) become `10·M`. -/
theorem step_err_dir (values : List ℚ) (hne : values ≠ []) (p : Nat) :
    ∃ M, M ∈ (List.range values.length).map (stepFitErr values p) ∧
      (∀ e ∈ (List.range values.length).map (stepFitErr values p), e ≤ M) ∧
      stepErr values p .down = .ok ((List.range values.length).map (fun k =>
        if mean (values.take (k+1)) < mean (values.drop k) then M * 10 else stepFitErr values p k)) ∧
      stepErr values p .up = .ok ((List.range values.length).map (fun k =>
        if mean (values.take (k+1)) > mean (values.drop k) then M * 10 else stepFitErr values p k)) :=
  stepErr_dir values hne p

example : stepErr [-1, -2, -3, 4, 5, 6] 1 .down = .ok [210, 210, 210, 210, 210, 210] := by decide +kernel
example : stepErr [-1, -2, -3, 4, 5, 6] 1 .up = .ok [18, 13, 4, 10, 78/5, 21] := by decide +kernel
example : stepErr [6, 5, 4, -3, 7, -1] 1 .down = .ok [88/5, 16, 14, 20, 68/5, 20] := by decide +kernel
example : stepErr [6, 5, 4, -3, 7, -1] 1 .up = .ok [200, 200, 200, 200, 200, 200] := by decide +kernel

/-! ## C20.e `calc_step_fn_steps_vals` -/

/-- **C20.e** explicit split sample `k` (`0 ≤ k < n`): the levels are the means of the samples strictly before and
strictly after sample `k` (`mean?` is `none`, NumPy's `nan`, exactly for an empty side: `k = 0` / `k = n−1`). -/
theorem step_levels_spec (values : List ℚ) (k : Nat) (hk : k < values.length) :
    stepLevels values (some (k : Int)) = .ok (mean? (values.take k), mean? (values.drop (k + 1))) ∧
    (∀ l : List ℚ, mean? l = if l = [] then none else some (mean l)) :=
  ⟨stepLevels_some values k hk, mean?_eq⟩

example : stepLevels [1, 2, 4, 4] (some 1) = .ok (some 1, some 4) := by decide +kernel
example : stepLevels [1, 2, 4, 4] (some 0) = .ok (none, some (10/3)) := by decide +kernel

/-- **C20.e** default split: the first minimiser `k` of the `p = 1` step-fit error. -/
theorem step_levels_default_spec (values : List ℚ) (hne : values ≠ []) :
    ∃ k, k < values.length ∧ (∀ j, j < values.length → stepFitErr values 1 k ≤ stepFitErr values 1 j) ∧
      (∀ j, j < k → stepFitErr values 1 k < stepFitErr values 1 j) ∧
      stepLevels values none = .ok (mean? (values.take k), mean? (values.drop (k + 1))) :=
  stepLevels_none values hne

example : stepLevels [1, 2, 4, 4] none = .ok (some 1, some 4) := by decide +kernel
example : stepLevels [-1, -2, -3, 4, 5, 6] none = .ok (some (-3/2), some 5) := by decide +kernel

end EqsigVerif.Props.C20
