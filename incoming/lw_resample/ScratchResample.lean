import EqsigVerif.Model.Resample
/-! Validation driver: reads lines `num n0 n1 n2 …` (record `x_j = n_j / 8`), prints
`re0 im0 re1 im1 …` of `resampleFourier twFloat x num` (or `err <kind>` from `resample`). -/
open EqsigVerif EqsigVerif.Cplx EqsigVerif.Model.Resample

def parseLine (s : String) : Option (Nat × List (Cx Float)) :=
  match (s.splitOn " ").filter (· ≠ "") with
  | [] => none
  | n :: rest =>
    match n.toNat? with
    | none => none
    | some num =>
      let xs := rest.filterMap (fun t => t.toInt?.map (fun (i : Int) =>
        (⟨Float.ofInt i / 8.0, 0.0⟩ : Cx Float)))
      some (num, xs)

def main (args : List String) : IO Unit := do
  let path := args.headD "cases.txt"
  let txt ← IO.FS.readFile path
  for ln in txt.splitOn "\n" do
    match parseLine ln with
    | none => pure ()
    | some (num, xs) =>
      match resample (α := Float) twFloat xs num with
      | .error k => IO.println s!"err {k}"
      | .ok ys =>
        IO.println (" ".intercalate (ys.map (fun z => s!"{z.re.toBits} {z.im.toBits}")))
