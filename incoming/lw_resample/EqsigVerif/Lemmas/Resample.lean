import EqsigVerif.Model.Resample
import EqsigVerif.Lemmas.Cplx
import EqsigVerif.Lemmas.CplxC
import Mathlib.Algebra.Order.Group.Int
import Mathlib.Order.Interval.Finset.Basic
import Mathlib.Algebra.Order.Interval.Finset.Basic
import Mathlib.Tactic.Ring
import Mathlib.Tactic.FieldSimp
import Mathlib.Tactic.Linarith
/-!
# Lemmas for `Model/Resample.lean` (C14.f): the spectral copy step entry by entry, the spectrum of a
trigonometric polynomial, and the inverse transform of the copied spectrum
-/
set_option linter.unusedSectionVars false
set_option linter.unusedVariables false
noncomputable section
namespace EqsigVerif.Model.Resample
open EqsigVerif EqsigVerif.Cplx Complex Finset

/-! ## lists built with `(List.range n).map` -/

theorem getD_map_range (f : ℕ → ℂ) (n b : ℕ) :
    ((List.range n).map f).getD b 0 = if b < n then f b else 0 := by
  by_cases hb : b < n
  · rw [if_pos hb, ← getElem_eq_getD _ _ (by simpa using hb)]
    simp
  · rw [if_neg hb, getD_of_not_lt _ _ (by simpa using hb)]

/-! ## the copy step, entry by entry -/

@[simp] theorem length_copyPos (X : List ℂ) (N num : ℕ) : (copyPos X N num).length = num := by
  simp [copyPos]

@[simp] theorem length_copyNeg (Y X : List ℂ) (N num : ℕ) (hY : Y.length = num) :
    (copyNeg Y X N num).length = num := by
  unfold copyNeg; split <;> simp [hY]

@[simp] theorem length_fixNyquist (Y X : List ℂ) (N num : ℕ) (hY : Y.length = num) :
    (fixNyquist (α := ℝ) Y X N num).length = num := by
  unfold fixNyquist
  simp only
  split
  · split
    · simp
    · split <;> simp [hY]
  · exact hY

@[simp] theorem length_copySpectrum (X : List ℂ) (N num : ℕ) :
    (copySpectrum (α := ℝ) X N num).length = num := by
  unfold copySpectrum
  exact length_fixNyquist _ _ _ _ (length_copyNeg _ _ _ _ (length_copyPos _ _ _))

theorem copyPos_getD (X : List ℂ) (N num b : ℕ) (hb : b < num) :
    (copyPos X N num).getD b 0 = if b < oneSided N num then X.getD b 0 else 0 := by
  rw [copyPos, getD_map_range, if_pos hb]

/-- stages 1+2: the bins `0 … m/2` and the last `m − m2` bins are copied, the rest is zero -/
theorem copyNeg_getD (X : List ℂ) (N num b : ℕ) (hb : b < num) :
    (copyNeg (copyPos X N num) X N num).getD b 0 =
      if num - negBins N num ≤ b then X.getD (N - negBins N num + (b - (num - negBins N num))) 0
      else if b < oneSided N num then X.getD b 0 else 0 := by
  unfold copyNeg
  by_cases h : oneSided N num < relBins N num
  · rw [if_pos h, getD_map_range, if_pos hb, copyPos_getD _ _ _ _ hb]
  · rw [if_neg h, copyPos_getD _ _ _ _ hb]
    have h0 : negBins N num = 0 := by unfold negBins; omega
    rw [h0, Nat.sub_zero, if_neg (show ¬ num ≤ b by omega)]

/-- stage 3 entry by entry -/
theorem fixNyquist_getD (Y X : List ℂ) (N num b : ℕ) (hb : b < num) (hY : Y.length = num) :
    (fixNyquist (α := ℝ) Y X N num).getD b 0 =
      if relBins N num % 2 = 0 then
        if num < N then
          (if b = num - relBins N num / 2 then Y.getD b 0 + X.getD (N - relBins N num / 2) 0
           else Y.getD b 0)
        else if N < num then
          (if b = num - relBins N num / 2 ∨ b = relBins N num / 2
           then Y.getD (relBins N num / 2) 0 / 2 else Y.getD b 0)
        else Y.getD b 0
      else Y.getD b 0 := by
  unfold fixNyquist
  simp only
  by_cases h1 : relBins N num % 2 = 0
  · rw [if_pos h1, if_pos h1]
    by_cases h2 : num < N
    · rw [if_pos h2, if_pos h2, getD_map_range, if_pos hb]
    · rw [if_neg h2, if_neg h2]
      by_cases h3 : N < num
      · rw [if_pos h3, if_pos h3, getD_map_range, if_pos hb]
        simp only [cxlike_ofReal]
        by_cases h4 : b = num - relBins N num / 2
        · simp [h4]
        · by_cases h5 : b = relBins N num / 2
          · simp [h5]
          · simp [h4, h5]
      · rw [if_neg h3, if_neg h3]
  · rw [if_neg h1, if_neg h1]

/-! ## characters `e^{2πi n/L}` with an integer frequency `n` -/

/-- `chr L n = e^{2πi n/L}` -/
def chr (L : ℕ) (n : ℤ) : ℂ := cexp (2 * Real.pi * I * n / L)

theorem chr_eq_zpow (L : ℕ) (n : ℤ) : chr L n = cexp (2 * Real.pi * I / L) ^ n := by
  rw [chr, ← Complex.exp_int_mul]
  congr 1; ring

theorem chr_add (L : ℕ) (a b : ℤ) : chr L (a + b) = chr L a * chr L b := by
  rw [chr, chr, chr, ← Complex.exp_add]
  congr 1; push_cast; ring

theorem chr_zero (L : ℕ) : chr L 0 = 1 := by simp [chr]

theorem chr_eq_one_iff (L : ℕ) (hL : L ≠ 0) (n : ℤ) : chr L n = 1 ↔ (L : ℤ) ∣ n := by
  rw [chr_eq_zpow]
  exact (Complex.isPrimitiveRoot_exp L hL).zpow_eq_one_iff_dvd n

theorem chr_mul_nat (L : ℕ) (n : ℤ) (j : ℕ) : chr L (n * j) = chr L n ^ j := by
  rw [chr_eq_zpow, chr_eq_zpow, zpow_mul, zpow_natCast]

/-- the character only depends on `n mod L` -/
theorem chr_congr (L : ℕ) (hL : L ≠ 0) (a b : ℤ) (h : (L : ℤ) ∣ a - b) : chr L a = chr L b := by
  have : a = (a - b) + b := by ring
  rw [this, chr_add, (chr_eq_one_iff L hL _).mpr h, one_mul]

/-- orthogonality: `Σ_{j<L} e^{2πi n j/L} = L·[L ∣ n]` -/
theorem sum_chr (L : ℕ) (hL : L ≠ 0) (n : ℤ) :
    ∑ j ∈ range L, chr L (n * j) = if (L : ℤ) ∣ n then (L : ℂ) else 0 := by
  simp only [chr_mul_nat]
  by_cases hn : (L : ℤ) ∣ n
  · rw [if_pos hn, (chr_eq_one_iff L hL n).mpr hn]; simp
  · rw [if_neg hn, geom_sum_eq (fun h => hn ((chr_eq_one_iff L hL n).mp h)), ← chr_mul_nat,
      (chr_eq_one_iff L hL _).mpr (Dvd.intro_left n rfl), sub_self, zero_div]

theorem omega_pow_eq_chr (L : ℕ) (m : ℕ) : omega L ^ m = chr L (-(m : ℤ)) := by
  rw [← twC_eq_pow, twC, chr]
  congr 1; push_cast; ring

theorem conj_omega_pow_eq_chr (L : ℕ) (m : ℕ) : starRingEnd ℂ (omega L ^ m) = chr L (m : ℤ) := by
  rw [map_pow, conj_omega, inv_pow, omega_pow_eq_chr, chr, chr, ← Complex.exp_neg]
  congr 1; push_cast; ring

/-! ## divisibility of small integers -/

/-- `w ≡ z (mod L)` with `|z| < L`: `L ∣ w ↔ z = 0` -/
theorem dvd_iff_eq (L : ℕ) (w z q : ℤ) (hw : w = z + q * L) (h1 : -(L : ℤ) < z) (h2 : z < L) :
    (L : ℤ) ∣ w ↔ z = 0 := by
  subst hw
  rw [dvd_add_left (Dvd.intro_left q rfl)]
  constructor
  · intro h
    exact Int.eq_zero_of_abs_lt_dvd h (abs_lt.mpr ⟨h1, h2⟩)
  · rintro rfl; exact dvd_zero _

/-! ## spectra that are sums of on-grid harmonics -/

/-- `Σ_{|k| ≤ K} c_k · A·[L ∣ k − b]`: the bin `b` of a length-`L` spectrum that carries `A·c_k` at the
bin `k mod L` -/
def bins (c : ℤ → ℂ) (K L : ℕ) (A : ℂ) (b : ℤ) : ℂ :=
  ∑ k ∈ Icc (-(K : ℤ)) K, c k * (if (L : ℤ) ∣ k - b then A else 0)

theorem bins_congr (c : ℤ → ℂ) (K L L' : ℕ) (A : ℂ) (b b' : ℤ)
    (h : ∀ k : ℤ, -(K : ℤ) ≤ k → k ≤ K → ((L : ℤ) ∣ k - b ↔ (L' : ℤ) ∣ k - b')) :
    bins c K L A b = bins c K L' A b' := by
  unfold bins
  apply Finset.sum_congr rfl
  intro k hk
  rw [Finset.mem_Icc] at hk
  simp only [h k hk.1 hk.2]

theorem bins_eq_zero (c : ℤ → ℂ) (K L : ℕ) (A : ℂ) (b : ℤ)
    (h : ∀ k : ℤ, -(K : ℤ) ≤ k → k ≤ K → ¬ (L : ℤ) ∣ k - b) : bins c K L A b = 0 := by
  unfold bins
  apply Finset.sum_eq_zero
  intro k hk
  rw [Finset.mem_Icc] at hk
  rw [if_neg (h k hk.1 hk.2), mul_zero]

/-- the trigonometric polynomial `Σ_{|k| ≤ K} c_k e^{2πi k j/L}` sampled at `j/L` -/
def trigPoly (c : ℤ → ℂ) (K L : ℕ) (j : ℕ) : ℂ := ∑ k ∈ Icc (-(K : ℤ)) K, c k * chr L (k * j)

/-- (a)+(b): the DFT of a trigonometric polynomial sampled on the `N`-grid carries `N·c_k` at bin `k mod N` -/
theorem dft_trigPoly (c : ℤ → ℂ) (K N : ℕ) (x : List ℂ)
    (hx : ∀ j, j < N → x.getD j 0 = trigPoly c K N j) (b : ℕ) (hb : b < N) :
    (dft twC x N).getD b 0 = bins c K N (N : ℂ) b := by
  have hN : N ≠ 0 := by omega
  rw [dftC_getD x N b hb]
  calc ∑ j ∈ range N, x.getD j 0 * omega N ^ (j * b)
      = ∑ j ∈ range N, ∑ k ∈ Icc (-(K : ℤ)) K, c k * chr N ((k - b) * j) := by
        apply Finset.sum_congr rfl
        intro j hj
        rw [hx j (Finset.mem_range.mp hj), trigPoly, Finset.sum_mul]
        apply Finset.sum_congr rfl
        intro k _
        rw [omega_pow_eq_chr, mul_assoc, ← chr_add]
        congr 2; push_cast; ring
    _ = ∑ k ∈ Icc (-(K : ℤ)) K, c k * ∑ j ∈ range N, chr N ((k - b) * j) := by
        rw [Finset.sum_comm]
        apply Finset.sum_congr rfl
        intro k _
        rw [Finset.mul_sum]
    _ = bins c K N (N : ℂ) b := by
        unfold bins
        apply Finset.sum_congr rfl
        intro k _
        rw [sum_chr N hN]

/-! ## (c) the copy step on a band-limited spectrum -/

/-- stages 1+2 map the spectrum carrying `A·c_k` at `k mod N` to the one carrying it at `k mod num` -/
theorem copyNeg_bins (c : ℤ → ℂ) (K N num : ℕ) (A : ℂ) (X : List ℂ)
    (hKN : 2 * K < N) (hKn : 2 * K < num)
    (hX : ∀ b, b < N → X.getD b 0 = bins c K N A b) (b : ℕ) (hb : b < num) :
    (copyNeg (copyPos X N num) X N num).getD b 0 = bins c K num A b := by
  rw [copyNeg_getD _ _ _ _ hb]
  have hone : oneSided N num = min num N / 2 + 1 := rfl
  have hneg : negBins N num = min num N - (min num N / 2 + 1) := rfl
  rw [hone, hneg]
  generalize hmm : min num N = m
  have hm : m ≤ num ∧ m ≤ N ∧ 2 * K < m := by omega
  split_ifs with h1 h2
  · -- negative-frequency part: `X[N − num + b]`
    rw [hX _ (by omega)]
    apply bins_congr
    intro k hk1 hk2
    rw [dvd_iff_eq N _ (k - b + num) (-1) (by omega) (by omega) (by omega),
      dvd_iff_eq num _ (k - b + num) (-1) (by ring) (by omega) (by omega)]
  · -- positive-frequency part: `X[b]`
    rw [hX _ (by omega)]
    apply bins_congr
    intro k hk1 hk2
    rw [dvd_iff_eq N _ (k - b) 0 (by ring) (by omega) (by omega),
      dvd_iff_eq num _ (k - b) 0 (by ring) (by omega) (by omega)]
  · -- the bins in between stay zero
    symm
    apply bins_eq_zero
    intro k hk1 hk2
    rw [dvd_iff_eq num _ (k - b) 0 (by ring) (by omega) (by omega)]
    omega

/-- stage 3 changes nothing below both Nyquist frequencies: the united/split bin carries zero -/
theorem copySpectrum_bins (c : ℤ → ℂ) (K N num : ℕ) (A : ℂ) (X : List ℂ)
    (hKN : 2 * K < N) (hKn : 2 * K < num)
    (hX : ∀ b, b < N → X.getD b 0 = bins c K N A b) (b : ℕ) (hb : b < num) :
    (copySpectrum (α := ℝ) X N num).getD b 0 = bins c K num A b := by
  unfold copySpectrum
  rw [fixNyquist_getD _ _ _ _ _ hb (length_copyNeg _ _ _ _ (length_copyPos _ _ _))]
  have hbase := copyNeg_bins c K N num A X hKN hKn hX
  have hrel : relBins N num = min num N := rfl
  rw [hrel]
  generalize hmm : min num N = m
  have hm : m ≤ num ∧ m ≤ N ∧ 2 * K < m := by omega
  split_ifs with h1 h2 h3 h4 h5
  · -- down-sampling, `b = num − m/2`: the added bin `X[N − m/2]` is zero
    rw [hbase b hb, hX _ (by omega), bins_eq_zero c K N A _ ?_, add_zero]
    intro k hk1 hk2
    rw [dvd_iff_eq N _ (k - (N - m / 2 : ℕ) + N) (-1) (by ring) (by omega) (by omega)]
    omega
  · exact hbase b hb
  · -- up-sampling, `b ∈ {m/2, num − m/2}`: the split bin `X[N/2]` is zero
    rw [hbase _ (by omega), bins_eq_zero c K num A _ ?_, zero_div, bins_eq_zero c K num A b ?_]
    · intro k hk1 hk2
      rcases h5 with h5 | h5
      · rw [dvd_iff_eq num _ (k - b + num) (-1) (by ring) (by omega) (by omega)]
        omega
      · rw [dvd_iff_eq num _ (k - b) 0 (by ring) (by omega) (by omega)]
        omega
    · intro k hk1 hk2
      rw [dvd_iff_eq num _ (k - (m / 2 : ℕ)) 0 (by ring) (by omega) (by omega)]
      omega
  · exact hbase b hb
  · exact hbase b hb
  · exact hbase b hb

/-! ## (d) the inverse transform of such a spectrum -/

/-- exactly one bin `b < L` is congruent to `k` modulo `L` -/
theorem sum_bins_chr (L : ℕ) (hL : L ≠ 0) (A : ℂ) (k : ℤ) (m : ℕ) :
    ∑ b ∈ range L, (if (L : ℤ) ∣ k - b then A else 0) * chr L ((m : ℤ) * b) = A * chr L (k * m) := by
  have hLpos : (0 : ℤ) < L := by omega
  obtain ⟨b0, hb0⟩ : ∃ b0 : ℕ, (b0 : ℤ) = k % L :=
    ⟨(k % L).toNat, Int.toNat_of_nonneg (Int.emod_nonneg _ (by omega))⟩
  have hb0lt : b0 < L := by have := Int.emod_lt_of_pos k hLpos; omega
  have hd : (L : ℤ) ∣ k - b0 := Int.dvd_self_sub_of_emod_eq hb0.symm
  rw [Finset.sum_eq_single b0]
  · rw [if_pos hd]
    congr 1
    apply chr_congr L hL
    have : (m : ℤ) * b0 - k * m = -(m : ℤ) * (k - b0) := by ring
    rw [this]
    exact Dvd.dvd.mul_left hd _
  · intro b hb hne
    rw [if_neg, zero_mul]
    intro hd'
    apply hne
    have h1 : (L : ℤ) ∣ (b : ℤ) - b0 := by
      have : (b : ℤ) - b0 = (k - b0) - (k - b) := by ring
      rw [this]; exact dvd_sub hd hd'
    have hb' : b < L := Finset.mem_range.mp hb
    have := (dvd_iff_eq L _ ((b : ℤ) - b0) 0 (by ring) (by omega) (by omega)).mp h1
    omega
  · intro h; exact absurd (Finset.mem_range.mpr hb0lt) h

/-- the inverse DFT of the spectrum carrying `A·c_k` at bin `k mod num`, divided by `s` -/
theorem idft_bins (c : ℤ → ℂ) (K num : ℕ) (A s : ℂ) (Y : List ℂ)
    (hY : ∀ b, b < num → Y.getD b 0 = bins c K num A b) (m : ℕ) (hm : m < num) :
    (idft twC (Y.map (fun z => z / s)) num).getD m 0 = A / s / num * trigPoly c K num m := by
  have hL : num ≠ 0 := by omega
  rw [idftC_getD _ _ _ hm]
  have h1 : ∀ b ∈ range num,
      (Y.map (fun z => z / s)).getD b 0 * starRingEnd ℂ (omega num ^ (m * b))
        = ∑ k ∈ Icc (-(K : ℤ)) K,
            c k / s * ((if (num : ℤ) ∣ k - b then A else 0) * chr num ((m : ℤ) * b)) := by
    intro b hb
    rw [getD_map_div, hY b (Finset.mem_range.mp hb), conj_omega_pow_eq_chr, bins, div_eq_mul_inv,
      Finset.sum_mul, Finset.sum_mul]
    apply Finset.sum_congr rfl
    intro k _
    push_cast; ring
  rw [Finset.sum_congr rfl h1, Finset.sum_comm, trigPoly, Finset.mul_sum, div_eq_mul_inv,
    Finset.sum_mul]
  apply Finset.sum_congr rfl
  intro k _
  rw [← Finset.mul_sum, sum_bins_chr num hL]
  ring

/-! ## unchanged length: the copy is the identity -/

theorem copySpectrum_same (X : List ℂ) (N : ℕ) (hX : X.length = N) :
    copySpectrum (α := ℝ) X N N = X := by
  apply List.ext_getElem (by simp [hX])
  intro b h1 h2
  have hb : b < N := by simpa using h1
  rw [getElem_eq_getD _ _ h1, getElem_eq_getD _ _ h2]
  unfold copySpectrum
  rw [fixNyquist_getD _ _ _ _ _ hb (length_copyNeg _ _ _ _ (length_copyPos _ _ _))]
  simp only [lt_irrefl, if_false, ite_self]
  rw [copyNeg_getD _ _ _ _ hb]
  have hone : oneSided N N = N / 2 + 1 := by simp [oneSided, relBins]
  have hneg : negBins N N = N - (N / 2 + 1) := by simp [negBins, oneSided, relBins]
  rw [hone, hneg]
  split_ifs with h3 h4
  · congr 1; omega
  · rfl
  · omega

/-- `e^{2πi/4} = i` (for concrete examples on four samples) -/
theorem exp_quarter : cexp (2 * Real.pi * I / (4 : ℕ)) = I := by
  have : (2 * Real.pi * I / (4 : ℕ) : ℂ) = Real.pi / 2 * I := by push_cast; ring
  rw [this, Complex.exp_mul_I]
  simp

theorem exp_quarter_zpow (k : ℤ) (j : ℕ) : cexp (2 * Real.pi * I * k * j / (4 : ℕ)) = I ^ (k * j) := by
  have h : I ^ (k * j) = cexp (2 * Real.pi * I / (4 : ℕ)) ^ (k * j) := by rw [exp_quarter]
  rw [h, ← Complex.exp_int_mul]; congr 1; push_cast; ring

end EqsigVerif.Model.Resample
