import EqsigVerif.Model.Resample
import EqsigVerif.Lemmas.Cplx
import EqsigVerif.Lemmas.CplxC
import EqsigVerif.Lemmas.Resample
/-!
# C14.f — periodic (Fourier) resampling reproduces band-limited periodic signals exactly

Model: `Model/Resample.lean` (`scipy.signal.resample(x, num)`, two-sided branch, no window), the last step of
`eqsig.fns.time_step.resample_to_approx_dt` (the length `num = new_npts` handed to it is
`Model.TimeStep.resampleNpts`, C14.a).  `fft/ifft` are the defining sums `Cplx.dft/idft` over Mathlib's `ℂ`
with the twiddles `twC N m = e^{-2πi m/N}` — external assumption **FftIsDft** (DESIGN §3.3); rounding is
outside the statement (exact complex arithmetic).
-/
set_option linter.unusedSectionVars false
set_option linter.unusedVariables false
namespace EqsigVerif.Props.C14
open EqsigVerif EqsigVerif.Cplx EqsigVerif.Wire EqsigVerif.Model.Resample Complex Finset

/-- the model's character `chr L (k·j)` in the notation of the statements -/
private theorem chr_eq_exp (L : ℕ) (k : ℤ) (j : ℕ) :
    chr L (k * j) = cexp (2 * Real.pi * I * k * j / L) := by
  rw [chr]; congr 1; push_cast; ring

private theorem trigPoly_eq (c : ℤ → ℂ) (K L j : ℕ) :
    trigPoly c K L j = ∑ k ∈ Icc (-(K : ℤ)) K, c k * cexp (2 * Real.pi * I * k * j / L) := by
  unfold trigPoly
  apply Finset.sum_congr rfl
  intro k _
  rw [chr_eq_exp]

/-- **C14.f** (band-limited exactness).  Let the record of `N` samples be a trigonometric polynomial that is
periodic over the record, `x_j = Σ_{|k| ≤ K} c_k e^{2πi k j/N}`, with highest harmonic `K` strictly below the
old *and* the new Nyquist frequency (`2K < N`, `2K < num`; arbitrary complex coefficients, in particular every
real record of that band).  Then `scipy.signal.resample(x, num)` returns `num` samples, and they are the
*same* trigonometric polynomial sampled on the new grid: `y_m = Σ_{|k| ≤ K} c_k e^{2πi k m/num}` — up- and
down-sampling, odd and even lengths alike. -/
theorem resample_bandlimited (c : ℤ → ℂ) (K N num : ℕ) (hKN : 2 * K < N) (hKn : 2 * K < num)
    (x : List ℂ) (hlen : x.length = N)
    (hx : ∀ j, j < N →
      x.getD j 0 = ∑ k ∈ Icc (-(K : ℤ)) K, c k * cexp (2 * Real.pi * I * k * j / N)) :
    resample (α := ℝ) twC x num = .ok (resampleFourier (α := ℝ) twC x num) ∧
    (resampleFourier (α := ℝ) twC x num).length = num ∧
    ∀ m, m < num →
      (resampleFourier (α := ℝ) twC x num).getD m 0
        = ∑ k ∈ Icc (-(K : ℤ)) K, c k * cexp (2 * Real.pi * I * k * m / num) := by
  have hN0 : N ≠ 0 := by omega
  have hn0 : num ≠ 0 := by omega
  refine ⟨?_, ?_, ?_⟩
  · simp [resample, hn0, hlen, hN0]
  · simp [resampleFourier]
  · intro m hm
    have hX : ∀ b, b < N → (dft twC x N).getD b 0 = bins c K N (N : ℂ) b :=
      dft_trigPoly c K N x (fun j hj => by rw [hx j hj, trigPoly_eq])
    have hY := copySpectrum_bins c K N num (N : ℂ) (dft twC x N) hKN hKn hX
    unfold resampleFourier
    simp only [hlen]
    rw [idft_bins c K num (N : ℂ) _ _ hY m hm, trigPoly_eq]
    have h1 : (N : ℂ) ≠ 0 := by exact_mod_cast hN0
    have h2 : (num : ℂ) ≠ 0 := by exact_mod_cast hn0
    have : (N : ℂ) / (CxLike.ofReal (((N : ℕ) : ℝ) / ((num : ℕ) : ℝ)) : ℂ) / (num : ℂ) = 1 := by
      simp only [cxlike_ofReal]
      push_cast
      field_simp
    rw [this, one_mul]

/-- non-vacuity: the real record `x_j = 2 + 2·cos(πj/2) = [4, 2, 0, 2]` (`N = 4`, `K = 1`,
`c₀ = 2, c_{±1} = 1`) satisfies the hypotheses, for up-sampling to `num = 8` and down-sampling to `num = 3` -/
example : 2 * 1 < 4 ∧ 2 * 1 < 8 ∧ 2 * 1 < 3 ∧ ([4, 2, 0, 2] : List ℂ).length = 4 ∧
    ∀ j, j < 4 → ([4, 2, 0, 2] : List ℂ).getD j 0 =
      ∑ k ∈ Icc (-((1 : ℕ) : ℤ)) (1 : ℕ),
        (if k = 0 then (2 : ℂ) else 1) * cexp (2 * Real.pi * I * k * j / (4 : ℕ)) := by
  refine ⟨by omega, by omega, by omega, rfl, ?_⟩
  intro j hj
  have hI : Icc (-((1 : ℕ) : ℤ)) (1 : ℕ) = {-1, 0, 1} := by decide
  simp only [exp_quarter_zpow, hI]
  interval_cases j <;> norm_num [Finset.sum_insert, zpow_neg, Complex.inv_I]

/-- **C14.f** (unchanged length).  `scipy.signal.resample(x, len(x)) = x` for every non-empty record
(no band condition): the spectrum is copied bin by bin, nothing is united or split, `s_fac = 1`. -/
theorem resample_same_length (x : List ℂ) (hx : 1 ≤ x.length) :
    resample (α := ℝ) twC x x.length = .ok x := by
  have hN0 : x.length ≠ 0 := by omega
  have hNc : ((x.length : ℕ) : ℂ) ≠ 0 := by exact_mod_cast hN0
  simp only [resample, hN0, if_false]
  congr 1
  unfold resampleFourier
  simp only
  rw [copySpectrum_same _ _ (length_dft _ _ _)]
  have h1 : (CxLike.ofReal (((x.length : ℕ) : ℝ) / ((x.length : ℕ) : ℝ)) : ℂ) = 1 := by
    simp only [cxlike_ofReal]; push_cast; exact div_self hNc
  rw [h1]
  simp only [div_one, List.map_id']
  rw [idft_dft, padTo_of_length _ _ rfl]

example : resample (α := ℝ) twC [3, -1, 4, 1, -5] 5 = .ok [3, -1, 4, 1, -5] :=
  resample_same_length _ (by simp)

end EqsigVerif.Props.C14
