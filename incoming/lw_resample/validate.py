"""Validation of EqsigVerif.Model.Resample.resampleFourier (run at Cx Float with the O(N^2) DFT sums)
against scipy.signal.resample, plus an independent Python evaluation of the same formula with
exact-definition DFT sums, plus the object-level entry point eqsig.fns.time_step.resample_to_approx_dt.

usage:  cd /tmp/lw_resample && PYTHONPATH=/tmp/repo_fixed /venv/bin/python validate.py
"""
import struct, subprocess, sys, os
import numpy as np
from scipy.signal import resample

HERE = os.path.dirname(os.path.abspath(__file__))
LEAN_DIR = os.environ.get("LEAN_DIR", HERE)
rng = np.random.default_rng(20260926)

def formula(x, num):
    """the model's formula with exact-definition DFT sums (complex two-sided branch)"""
    x = np.asarray(x, dtype=complex); N = len(x)
    j = np.arange(N)
    X = np.array([np.sum(x * np.exp(-2j * np.pi * j * k / N)) for k in range(N)])
    m = min(num, N); m2 = m // 2 + 1
    Y = np.zeros(num, dtype=complex)
    Y[:m2] = X[:m2]
    if m2 < m:
        Y[m2 - m:] = X[m2 - m:]
    if m % 2 == 0:
        if num < N:
            Y[-m // 2] += X[-m // 2]
        elif N < num:
            Y[m // 2] /= 2
            Y[num - m // 2] = Y[m // 2]
    Y = Y / (N / num)
    b = np.arange(num)
    return np.array([np.sum(Y * np.exp(2j * np.pi * b * mm / num)) / num for mm in range(num)])

cases = []
# all (N, num) in 1..14 x 1..14, then random pairs up to 40, plus special records
for N in range(1, 15):
    for num in range(1, 15):
        cases.append((num, rng.integers(-1000, 1001, size=N)))
for _ in range(120):
    N = int(rng.integers(2, 41)); num = int(rng.integers(2, 41))
    cases.append((num, rng.integers(-1000, 1001, size=N)))
for N in (2, 3, 8, 9, 16, 40):
    for num in (2, 3, 7, 8, 16, 17, 40):
        cases.append((num, np.array([8 * (-1) ** j for j in range(N)])))      # Nyquist record
        cases.append((num, np.array([8] + [0] * (N - 1))))                     # impulse
        cases.append((num, np.full(N, 24)))                                    # constant
err_cases = [(0, np.array([8, 16])), (3, np.array([], dtype=int)), (0, np.array([], dtype=int))]

with open(os.path.join(LEAN_DIR, "cases.txt"), "w") as f:
    for num, n in cases + err_cases:
        f.write(" ".join([str(num)] + [str(int(v)) for v in n]) + "\n")

out = subprocess.run(["lake", "env", "lean", "--run", "ScratchResample.lean", "cases.txt"],
                     cwd=LEAN_DIR, capture_output=True, text=True)
lines = [l for l in out.stdout.split("\n") if l.strip()]
if len(lines) != len(cases) + len(err_cases):
    print(out.stdout[-2000:], out.stderr[-2000:]); sys.exit("driver output length mismatch")

def dec(tok):
    return struct.unpack("<d", struct.pack("<Q", int(tok)))[0]

worst = worst_f = worst_im = 0.0; nbad = 0; kinds = {"up": 0, "down": 0, "same": 0}
for (num, n), ln in zip(cases, lines):
    x = n / 8.0; N = len(x)
    ref = resample(x, num)
    toks = ln.split()
    assert len(toks) == 2 * num, (N, num, ln[:80])
    re = np.array([dec(t) for t in toks[0::2]]); im = np.array([dec(t) for t in toks[1::2]])
    scale = max(1.0, np.max(np.abs(x)))
    e = np.max(np.abs(re - ref)) / scale; ei = np.max(np.abs(im)) / scale
    ef = np.max(np.abs(formula(x, num) - ref)) / scale
    worst = max(worst, e); worst_im = max(worst_im, ei); worst_f = max(worst_f, ef)
    kinds["up" if num > N else "down" if num < N else "same"] += 1
    if e > 1e-9 or ei > 1e-9 or ef > 1e-9:
        nbad += 1; print("MISMATCH", N, num, e, ei, ef)
# error behaviour
for (num, n), ln in zip(err_cases, lines[len(cases):]):
    try:
        resample(n / 8.0, num); got = "ok"
    except Exception as ex:
        got = "err " + type(ex).__name__
    if got != ln.strip():
        nbad += 1; print("ERR MISMATCH", num, len(n), got, ln)

# complex records: scipy then runs literally the two-sided branch that the model transcribes
worst_c = 0.0; ncplx = 0
for _ in range(60):
    N = int(rng.integers(1, 41)); num = int(rng.integers(1, 41))
    xc = (rng.integers(-1000, 1001, size=N) + 1j * rng.integers(-1000, 1001, size=N)) / 8.0
    worst_c = max(worst_c, np.max(np.abs(formula(xc, num) - resample(xc, num))) / max(1.0, np.max(np.abs(xc))))
    ncplx += 1
if worst_c > 1e-9:
    nbad += 1; print("COMPLEX MISMATCH", worst_c)

# object level: resample_to_approx_dt = resampleNpts (Model/TimeStep) + this model
import eqsig
from eqsig.fns.time_step import resample_to_approx_dt
nobj = 0; worst_o = 0.0
for dt, target, even in [(0.02, 0.01, True), (0.02, 0.01, False), (0.03, 0.01, True), (0.01, 0.02, True),
                         (0.01, 0.03, True), (0.01, 0.01, True), (0.025, 0.01, True), (0.01, 0.025, True)]:
    for N in (6, 7, 12, 21):
        x = rng.integers(-1000, 1001, size=N) / 8.0
        o = resample_to_approx_dt(eqsig.AccSignal(x, dt), target, even=even)
        worst_o = max(worst_o, np.max(np.abs(formula(x, o.npts).real - o.values)) / max(1.0, np.max(np.abs(x))))
        nobj += 1
if worst_o > 1e-9:
    nbad += 1; print("OBJECT-LEVEL MISMATCH", worst_o)

# the THEOREMS of Props/C14Resample.lean evaluated on scipy itself (statement sanity, not a proof)
def trig(c, K, L, m):   # sum_{|k|<=K} c_k e^{2 pi i k m / L}
    return sum(c[k + K] * np.exp(2j * np.pi * k * m / L) for k in range(-K, K + 1))
worst_t = 0.0; nthm = 0
for _ in range(150):
    N = int(rng.integers(1, 41)); num = int(rng.integers(1, 41))
    K = int(rng.integers(0, (min(N, num) // 2) + 1))            # closed band 2K <= N, 2K <= num
    c = (rng.integers(-8, 9, size=2 * K + 1) + 1j * rng.integers(-8, 9, size=2 * K + 1)) / 4.0
    if rng.integers(0, 2):                                       # real record: c_{-k} = conj c_k
        c = (c + np.conj(c[::-1])) / 2
    if 2 * K == N and N < num:
        c[0] = c[-1]                                             # cosine at the old Nyquist frequency
    xs = np.array([trig(c, K, N, j) for j in range(N)])
    want = np.array([trig(c, K, num, m) for m in range(num)])
    got = resample(xs.real if np.allclose(xs.imag, 0) else xs, num)
    worst_t = max(worst_t, np.max(np.abs(got - want)) / max(1.0, np.max(np.abs(xs)))); nthm += 1
for _ in range(60):                                              # retained samples, any record
    N = int(rng.integers(1, 31)); r = int(rng.integers(1, 6))
    xs = rng.integers(-1000, 1001, size=N) / 8.0
    worst_t = max(worst_t, np.max(np.abs(resample(xs, r * N)[::r] - xs)) / max(1.0, np.max(np.abs(xs)))); nthm += 1
for P in (1, 2, 5, 8):                                           # cosine at the old Nyquist frequency
    for num in (2 * P + 1, 2 * P + 2, 4 * P, 37):
        xs = 3.0 * (-1.0) ** np.arange(2 * P)
        want = 3.0 * np.cos(np.pi * 2 * P * np.arange(num) / num)
        worst_t = max(worst_t, np.max(np.abs(resample(xs, num) - want))); nthm += 1
if worst_t > 1e-9:
    nbad += 1; print("THEOREM-STATEMENT MISMATCH", worst_t)
print(f"theorem statements on scipy: {nthm} cases, max rel dev {worst_t:.3e}")

print(f"cases={len(cases)} {kinds} err_cases={len(err_cases)} complex_cases={ncplx} (formula only, {worst_c:.3e}) object_cases={nobj}")
print(f"max rel |lean_model.re - scipy| = {worst:.3e}; max rel |lean_model.im| = {worst_im:.3e}; "
      f"max rel |python_formula - scipy| = {worst_f:.3e}; object level = {worst_o:.3e}")
print("RESULT", "PASS" if nbad == 0 else f"FAIL ({nbad})")
