import EqsigVerif.Model.Sdof
import EqsigVerif.Model.Spectra
import EqsigVerif.Lemmas.Sdof
import EqsigVerif.Lemmas.Spectra
import Mathlib.Algebra.Order.Ring.Rat
import Mathlib.Tactic.NormNum
/-!
# C02 — the response operator is linear, causal, shift-invariant, row-independent

`response c isZero ab xi acc periods` is the model of `nigam_and_jennings_response(acc, dt, periods, xi)`
(`Model/Sdof.lean`); `ab : α → AB α` is the propagator as a function of `w` — every theorem of this
file holds for **any** propagator over any field, so none depends on `Gen/`.
Helper vocabulary (`Lemmas/Sdof.lean`): `linL c d a b` = `c•a + d•b` sample by sample, `lin3` the same on
the three series of a row, `map3 f` = `f` on each of the three series, `zeroRow acc` = the row of a
leading zero period, `rowOf c ab xi acc p = rowFor ab xi (c / p) (−acc)` = the row of a non-zero period.
(C02.e, refinement invariance, needs the ODE and lives in `Props/C02e.lean`.)
-/
set_option linter.unusedSectionVars false
set_option linter.unusedVariables false
namespace EqsigVerif.Props.C02
open EqsigVerif.Model.Sdof EqsigVerif.Model.Spectra

variable {α : Type} [Field α]

/-- a concrete propagator over `ℚ` used by the non-vacuity examples -/
private def abQ : Rat → AB Rat := fun w => ⟨1, w, -w, 1 / 2, 1, 2, 3, -1⟩
private def isZ : Rat → Bool := fun p => p == 0

/-- **C02.a** linearity: the response (all three series of every row, leading zero row included) of
`k•a + d•b` is `k•resp a + d•resp b`, for any propagator. -/
theorem resp_linear (c : α) (isZero : α → Bool) (ab : α → AB α) (xi k d : α) (a b : List α)
    (hl : a.length = b.length) (ps : List α) (ra rb : List (List α × List α × List α))
    (ha : response c isZero ab xi a ps = some ra) (hb : response c isZero ab xi b ps = some rb) :
    response c isZero ab xi (linL k d a b) ps = some (List.zipWith (lin3 k d) ra rb) := by
  rw [response_lin c isZero ab xi a b hl k d ps, ha, hb]; rfl

example : response 6 isZ abQ (1/2) (linL 2 (-3) [1, 0, 2] [0, 1, 1]) [0, 2, 3]
    = some (List.zipWith (lin3 2 (-3)) ((response 6 isZ abQ (1/2) [1, 0, 2] [0, 2, 3]).get!)
        ((response 6 isZ abQ (1/2) [0, 1, 1] [0, 2, 3]).get!)) := by decide +kernel

/-- C02.a, one oscillator: `rowFor` is linear in the (negated) record. -/
theorem row_linear (ab : α → AB α) (xi w k d : α) (a b : List α) (hl : a.length = b.length) :
    rowFor ab xi w (linL k d a b) = lin3 k d (rowFor ab xi w a) (rowFor ab xi w b) :=
  rowFor_lin ab xi w k d a b hl

example : rowFor abQ (1/2) 3 (linL 2 (-3) [1, 0, 2] [0, 1, 1])
    = lin3 2 (-3) (rowFor abQ (1/2) 3 [1, 0, 2]) (rowFor abQ (1/2) 3 [0, 1, 1]) := by decide +kernel

/-- C02.a, scaling: `resp (k•a) = k•resp a`. -/
theorem resp_scale (c : α) (isZero : α → Bool) (ab : α → AB α) (xi k : α) (a : List α) (ps : List α) :
    response c isZero ab xi (a.map (k * ·)) ps =
      (response c isZero ab xi a ps).map (List.map (map3 (List.map (k * ·)))) := by
  apply response_map c isZero ab xi (fun a => a.map (k * ·)) (map3 (List.map (k * ·)))
  · intro p
    simp only [rowOf, List.map_map]
    rw [← rowFor_smul]
    congr 1
    simp only [List.map_map]
    apply List.map_congr_left
    intro x _
    simp only [Function.comp]
    ring
  · simp only [zeroRow, map3, List.map_map]
    refine Prod.ext ?_ (Prod.ext ?_ ?_) <;>
      (apply List.map_congr_left; intro x _; simp only [Function.comp]; ring)

example : response 6 isZ abQ (1/2) ([1, 0, 2].map ((-3) * ·)) [0, 2]
    = (response 6 isZ abQ (1/2) [1, 0, 2] [0, 2]).map (List.map (map3 (List.map ((-3) * ·)))) := by
  decide +kernel

/-- **C02.a corollary** spectra scale by `|k|` and ignore the sign: for every row of the response,
`absmax` of each of the three series of `resp (k•a)` is `|k|` times that of `resp a`. -/
theorem resp_absmax_scale [LinearOrder α] [IsStrictOrderedRing α]
    (c : α) (isZero : α → Bool) (ab : α → AB α) (xi k : α) (a : List α) (ps : List α)
    (r r' : List (List α × List α × List α))
    (hr : response c isZero ab xi a ps = some r)
    (hr' : response c isZero ab xi (a.map (k * ·)) ps = some r') :
    r'.length = r.length ∧ ∀ j (hj : j < r.length) (hj' : j < r'.length),
      absmax r'[j].1 = (absmax r[j].1).map (|k| * ·) ∧
      absmax r'[j].2.1 = (absmax r[j].2.1).map (|k| * ·) ∧
      absmax r'[j].2.2 = (absmax r[j].2.2).map (|k| * ·) := by
  rw [resp_scale, hr, Option.map_some, Option.some.injEq] at hr'
  subst hr'
  refine ⟨by simp, ?_⟩
  intro j hj hj'
  simp only [List.getElem_map, map3, absmax_smul]
  exact ⟨trivial, trivial, trivial⟩

example : (response 6 isZ abQ (1/2) ([1, 0, 2].map ((-3) * ·)) [2]).map (List.map (fun r => absmax r.1))
    = (response 6 isZ abQ (1/2) [1, 0, 2] [2]).map (List.map (fun r => (absmax r.1).map (|(-3 : Rat)| * ·))) := by
  decide +kernel

/-- **C02.b** causality: the response to the first `i` samples is the first `i` samples of the
response (samples after index `i − 1` do not affect the response up to `i − 1`). -/
theorem resp_causal (c : α) (isZero : α → Bool) (ab : α → AB α) (xi : α) (a : List α) (i : Nat)
    (ps : List α) :
    response c isZero ab xi (a.take i) ps =
      (response c isZero ab xi a ps).map (List.map (map3 (List.take i))) := by
  apply response_map c isZero ab xi (List.take i) (map3 (List.take i))
  · intro p
    simp only [rowOf, List.map_take]
    exact rowFor_take _ _ _ _ _
  · exact zeroRow_take _ _

example : response 6 isZ abQ (1/2) ([1, 0, 2, 5].take 2) [0, 2]
    = (response 6 isZ abQ (1/2) [1, 0, 2, 5] [0, 2]).map (List.map (map3 (List.take 2))) := by
  decide +kernel

/-- **C02.c** shift: prepending `k` zeros to a record that starts at zero delays every series of the
response by exactly `k` samples (zero-filled). -/
theorem resp_shift (c : α) (isZero : α → Bool) (ab : α → AB α) (xi : α) (a : List α) (k : Nat)
    (h0 : a.head? = some 0) (ps : List α) :
    response c isZero ab xi (List.replicate k 0 ++ a) ps =
      (response c isZero ab xi a ps).map (List.map (map3 (List.replicate k 0 ++ ·))) := by
  apply response_map c isZero ab xi (List.replicate k 0 ++ ·) (map3 (List.replicate k 0 ++ ·))
  · intro p
    simp only [rowOf, map_neg_zeros]
    apply rowFor_zeros
    cases a with
    | nil => simp at h0
    | cons x xs =>
      simp only [List.head?_cons, Option.some.injEq] at h0
      simp [h0]
  · exact zeroRow_zeros _ _

example : response 6 isZ abQ (1/2) (List.replicate 2 0 ++ [0, 1, 2]) [0, 2]
    = (response 6 isZ abQ (1/2) [0, 1, 2] [0, 2]).map (List.map (map3 (List.replicate 2 0 ++ ·))) := by
  decide +kernel

/-- the hypothesis `a.head? = some 0` of C02.c is necessary: the load of the panel before `a[0]` is
linear from `0` to `a[0]`, so a record starting at `1` responds already at the first original sample. -/
example : response 6 isZ abQ (1/2) (List.replicate 1 0 ++ [1, 2]) [2]
    ≠ (response 6 isZ abQ (1/2) [1, 2] [2]).map (List.map (map3 (List.replicate 1 0 ++ ·))) := by
  decide +kernel

/-- **C02.d** the response is the per-period map of `rowOf` (no leading zero period): row `j` is a
function of `periods[j]`, `xi`, the propagator and the record only. -/
theorem resp_eq_map_rowOf (c : α) (isZero : α → Bool) (ab : α → AB α) (xi : α) (a : List α)
    (p0 : α) (rest : List α) (h : isZero p0 = false) :
    response c isZero ab xi a (p0 :: rest) = some ((p0 :: rest).map (rowOf c ab xi a)) :=
  response_cons_nonzero c isZero ab xi a p0 rest h

example : response 6 isZ abQ (1/2) [1, 0, 2] [2, 3] = some ([2, 3].map (rowOf 6 abQ (1/2) [1, 0, 2])) := by
  decide +kernel

/-- **C02.d** with a leading zero period: row 0 is `zeroRow`, the remaining rows are the per-period
map over `periods.tail`. -/
theorem resp_leading_zero (c : α) (isZero : α → Bool) (ab : α → AB α) (xi : α) (a : List α)
    (p0 : α) (rest : List α) (h : isZero p0 = true) :
    response c isZero ab xi a (p0 :: rest) = some (zeroRow a :: rest.map (rowOf c ab xi a)) :=
  response_cons_zero c isZero ab xi a p0 rest h

example : response 6 isZ abQ (1/2) [1, 0, 2] [0, 2, 3]
    = some (zeroRow [1, 0, 2] :: [2, 3].map (rowOf 6 abQ (1/2) [1, 0, 2])) := by decide +kernel

/-- **C02.d** `resp_rows_independent`: in two calls with the same record, damping and propagator but
arbitrary period lists (reordered, partitioned, batched differently, with or without a leading zero),
the rows of equal non-zero periods are equal — and equal to `rowOf` of that period. -/
theorem resp_rows_independent (c : α) (isZero : α → Bool) (ab : α → AB α) (xi : α) (a : List α)
    (ps ps' : List α) (r r' : List (List α × List α × List α))
    (hr : response c isZero ab xi a ps = some r) (hr' : response c isZero ab xi a ps' = some r')
    (i j : Nat) (p : α) (hi : ps[i]? = some p) (hj : ps'[j]? = some p) (hp : isZero p = false) :
    r[i]? = some (rowOf c ab xi a p) ∧ r'[j]? = some (rowOf c ab xi a p) := by
  have key : ∀ (qs : List α) (s : List (List α × List α × List α)) (n : Nat),
      response c isZero ab xi a qs = some s → qs[n]? = some p → s[n]? = some (rowOf c ab xi a p) := by
    intro qs s n hs hn
    cases qs with
    | nil => simp at hn
    | cons q0 rest =>
      cases hq : isZero q0 with
      | false =>
        rw [response_cons_nonzero _ _ _ _ _ _ _ hq, Option.some.injEq] at hs
        subst hs
        rw [List.getElem?_map, hn]; rfl
      | true =>
        rw [response_cons_zero _ _ _ _ _ _ _ hq, Option.some.injEq] at hs
        subst hs
        cases n with
        | zero =>
          simp only [List.getElem?_cons_zero, Option.some.injEq] at hn
          rw [hn, hp] at hq; exact absurd hq (by simp)
        | succ n =>
          simp only [List.getElem?_cons_succ] at hn ⊢
          rw [List.getElem?_map, hn]; rfl
  exact ⟨key ps r i hr hi, key ps' r' j hr' hj⟩

example : (response 6 isZ abQ (1/2) [1, 0, 2] [0, 2, 3]).get![2]? = (response 6 isZ abQ (1/2) [1, 0, 2] [3, 5]).get![0]? := by
  decide +kernel

/-- **C02.d** permutation / re-batching form: for any selection `idx` of positions of a period list
without zero period, the response for the selected periods consists of the selected rows. -/
theorem resp_reindex (c : α) (isZero : α → Bool) (ab : α → AB α) (xi : α) (a : List α)
    (ps : List α) (hps : ∀ p ∈ ps, isZero p = false) (r : List (List α × List α × List α))
    (hr : response c isZero ab xi a ps = some r) (idx : List (Fin ps.length)) (hidx : idx ≠ []) :
    ∃ hlen : r.length = ps.length,
      response c isZero ab xi a (idx.map (fun i => ps[i])) = some (idx.map (fun i => r[i.1]'(by omega))) := by
  have hall : ∀ qs : List α, qs ≠ [] → (∀ p ∈ qs, isZero p = false) →
      response c isZero ab xi a qs = some (qs.map (rowOf c ab xi a)) := by
    intro qs hne hq
    cases qs with
    | nil => exact absurd rfl hne
    | cons q0 rest => exact response_cons_nonzero _ _ _ _ _ _ _ (hq q0 (by simp))
  have hne : ps ≠ [] := by
    rintro rfl
    cases idx with
    | nil => exact absurd rfl hidx
    | cons i _ => exact i.elim0
  rw [hall ps hne hps, Option.some.injEq] at hr
  subst hr
  refine ⟨by simp, ?_⟩
  rw [hall _ (by simpa using hidx) (by
    intro p hp
    obtain ⟨i, _, rfl⟩ := List.mem_map.mp hp
    exact hps _ (by simp))]
  simp only [List.map_map, List.getElem_map]
  rfl

example : response 6 isZ abQ (1/2) [1, 0, 2] [5, 2, 3]
    = some ([2, 0, 1].map (fun i => (response 6 isZ abQ (1/2) [1, 0, 2] [2, 3, 5]).get![i]!)) := by
  decide +kernel

end EqsigVerif.Props.C02
