import EqsigVerif.Model.Sdof
import EqsigVerif.Model.Spectra
import EqsigVerif.Gen.SdofABFloat
import EqsigVerif.Gen.Consts
/-!
Validation driver (throw-away): evaluates the Float twin of the model on requests read from stdin.
Line protocol (all floats as decimal `UInt64` bit patterns):
  `resp <xi> <dt> | <periods…> | <acc…>`  → one line per row: `row <u…> | <v…> | <a…>`, then `end`; or `none`
  `absmax <values…>`                      → `some <bits>` or `none`
Run: `lake env lean --run ValidateSdof.lean < requests.txt`
-/
open EqsigVerif.Model.Sdof EqsigVerif.Model.Spectra EqsigVerif.Gen

def parseBits (s : String) : Float := Float.ofBits (s.toNat!.toUInt64)
def parseList (s : String) : List Float := (s.splitOn " ").filter (· ≠ "") |>.map parseBits
def showList (l : List Float) : String := " ".intercalate (l.map (fun x => toString x.toBits.toNat))

def handle (line : String) : String :=
  if line.startsWith "resp " then
    match (line.drop 5).toString.splitOn "|" with
    | [hd, ps, acc] =>
      match parseList hd with
      | [xi, dt] =>
        match response Consts.njTwoPiFloat (fun p => p == 0) (fun w => SdofAB.computeABFloat xi w dt) xi
            (parseList acc) (parseList ps) with
        | none => "none"
        | some rows =>
          "\n".intercalate (rows.map (fun (r : List Float × List Float × List Float) => s!"row {showList r.1} | {showList r.2.1} | {showList r.2.2}")) ++ "\nend"
      | _ => "bad"
    | _ => "bad"
  else if line.startsWith "absmax" then
    match absmax (parseList (line.drop 6).toString) with
    | none => "none"
    | some m => s!"some {m.toBits.toNat}"
  else "bad"

partial def loop (h : IO.FS.Stream) (out : IO.FS.Stream) : IO Unit := do
  let line ← h.getLine
  if line.isEmpty then return
  out.putStrLn (handle (line.dropEndWhile (fun c => c == '\n' || c == '\r')).toString)
  loop h out

def main : IO Unit := do
  loop (← IO.getStdin) (← IO.getStdout)
