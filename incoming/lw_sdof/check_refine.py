# compares Lean `refine r l` (exact, Rat) with np.interp on the refined grid (dyadic values: floats exact)
import re, sys
import numpy as np
from fractions import Fraction
txt = open('/tmp/lw_sdof/refine_full.txt').read()
txt = re.sub(r'(-?\d+) / (\d+)', r'Fraction(\1,\2)', txt)
data = eval(txt)
bad = 0
for r, l, ref in data:
    n = len(l)
    if n == 0:
        ok = ref == []
    else:
        dt = 0.5
        t_new = np.arange(r * (n - 1) + 1) * (dt / r)
        got = np.interp(t_new, np.arange(n) * dt, np.array(l, dtype=float))
        ok = len(ref) == len(got) and all(float(a) == b for a, b in zip(ref, got))
    if not ok:
        bad += 1; print("MISMATCH", r, l, ref)
print("refine cases:", len(data), "mismatches:", bad)
