"""Validation of the Lean model (Float twin) of eqsig.sdof.nigam_and_jennings_response / response_series / absmax
against the Python code (tree with the planned fixes).  Run from the lean project directory:
    cd /tmp/repo_fixed && PYTHONPATH=/tmp/repo_fixed /venv/bin/python <lean dir>/validate.py <lean dir>
"""
import struct, subprocess, sys, os, itertools
import numpy as np
import eqsig.sdof as sdof

lean_dir = sys.argv[1] if len(sys.argv) > 1 else os.path.dirname(os.path.abspath(__file__))

def bits(x):
    return str(struct.unpack('<Q', struct.pack('<d', float(x)))[0])

def unbits(s):
    return struct.unpack('<d', struct.pack('<Q', int(s)))[0]

rng = np.random.default_rng(20260926)
resp_cases = []
lengths = [2, 3, 4, 5, 7, 10, 16, 25, 33, 50, 1, 0]
xis = [0.0, 0.05, 0.7]
period_sets = [[0.5], [0.0, 0.3, 1.0], [2.0, 0.1, 0.7, 0.05], [0.0], [0.0, 1.5], [3.0, 0.02], [0.2, 0.2, 4.0]]
k = 0
for n in lengths:
    for xi in xis:
        ps = period_sets[k % len(period_sets)]
        dt = [0.01, 0.005, 0.02, 0.1][k % 4]
        kind = k % 5
        if kind == 0:
            acc = rng.standard_normal(n)
        elif kind == 1:
            acc = np.sin(0.3 * np.arange(n)) * 2.5
        elif kind == 2:
            acc = rng.integers(-3, 4, n).astype(float)
        elif kind == 3:
            acc = np.zeros(n); acc[n // 2:] = 1.0
        else:
            acc = rng.standard_normal(n) * 1e6
        resp_cases.append((xi, dt, ps, acc))
        k += 1
# a few more with list/tuple containers and extra period sets
for ps in period_sets:
    resp_cases.append((0.05, 0.01, ps, rng.standard_normal(12)))

# empty period list: IndexError in Python, `none` in the model
resp_cases.append((0.05, 0.01, [], rng.standard_normal(5)))

absmax_cases = []
for n in range(0, 6):
    for _ in range(12):
        absmax_cases.append(rng.integers(-4, 5, n).astype(float))
absmax_cases += [np.array(v, dtype=float) for v in ([3, -3], [-3, 3], [0.0], [-0.0, 0.0], [-5], [5], [1, 1, 1], [-2, -2], [-1, -7, -3], [1, 7, 3])]

req = []
for xi, dt, ps, acc in resp_cases:
    req.append("resp %s %s | %s | %s" % (bits(xi), bits(dt), " ".join(bits(p) for p in ps), " ".join(bits(a) for a in acc)))
for v in absmax_cases:
    req.append("absmax " + " ".join(bits(a) for a in v))

out = subprocess.run(["lake", "env", "lean", "--run", "ValidateSdof.lean"], cwd=lean_dir, input="\n".join(req) + "\n",
                     capture_output=True, text=True)
if out.returncode != 0:
    print(out.stderr); sys.exit(2)
lines = [l for l in out.stdout.split("\n")]
pos = 0
fail = 0
worst = 0.0
bitexact = 0
nseries = 0
for ci, (xi, dt, ps, acc) in enumerate(resp_cases):
    # all entry points
    outs = []
    for fn in (sdof.nigam_and_jennings_response, sdof.response_series):
        for conv in (list, tuple, np.array):
            try:
                outs.append(fn(conv(acc) if conv is not np.array else np.array(acc), dt, conv(ps), xi))
            except Exception as e:  # noqa
                outs.append(e)
    ref = outs[0]
    for o in outs[1:]:
        assert (isinstance(o, Exception) and isinstance(ref, Exception)) or all(np.array_equal(x, y) for x, y in zip(o, ref)), "entry points differ"
    rows = []
    if lines[pos] == "none":
        pos += 1
        lean = None
    else:
        while lines[pos] != "end":
            assert lines[pos].startswith("row "), lines[pos]
            parts = lines[pos][4:].split("|")
            rows.append([np.array([unbits(t) for t in p.split()], dtype=float) for p in parts])
            pos += 1
        pos += 1
        lean = rows
    if isinstance(ref, Exception):
        if lean is not None:
            print("case", ci, "python raised", repr(ref), "lean returned rows"); fail += 1
        continue
    if lean is None:
        print("case", ci, "lean none, python ok"); fail += 1; continue
    u, v, a = ref
    if not (len(lean) == u.shape[0] == v.shape[0] == a.shape[0]):
        print("case", ci, "row count", len(lean), u.shape); fail += 1; continue
    for j, row in enumerate(lean):
        for name, lser, pser in (("u", row[0], u[j]), ("v", row[1], v[j]), ("a", row[2], a[j])):
            nseries += 1
            if lser.shape != pser.shape:
                print("case", ci, "row", j, name, "shape", lser.shape, pser.shape); fail += 1; continue
            if lser.size == 0:
                bitexact += 1; continue
            peak = max(np.max(np.abs(pser)), 1e-300)
            err = np.max(np.abs(lser - pser)) / peak
            worst = max(worst, err)
            if np.array_equal(lser, pser):
                bitexact += 1
            if not err <= 1e-9:
                print("case", ci, "row", j, name, "rel err", err, "xi", xi, "dt", dt, "T", ps[j]); fail += 1
print("response cases:", len(resp_cases), "series compared:", nseries, "bit-exact series:", bitexact,
      "worst rel err (of peak):", worst, "failures:", fail)

afail = 0
for v in absmax_cases:
    l = lines[pos]; pos += 1
    try:
        r = float(sdof.absmax(v))
        ok = l.startswith("some ") and unbits(l[5:]) == r
    except ValueError:
        ok = (l == "none")
    if not ok:
        print("absmax mismatch", v, l); afail += 1
print("absmax cases:", len(absmax_cases), "failures:", afail)
sys.exit(1 if (fail or afail) else 0)
