import EqsigVerif.Model.Switched
open EqsigVerif EqsigVerif.Model.Switched

def alphabet : List Int := [-2, -1, 0, 1, 2]

def enum : Nat → List (List Int)
  | 0 => [[]]
  | n+1 => alphabet.flatMap (fun a => (enum n).map (a :: ·))

def showL {α} [ToString α] (l : List α) : String := " ".intercalate (l.map toString)
def showR (r : Except Wire.ErrKind (List Nat)) : String :=
  match r with | .ok l => "ok " ++ showL l | .error e => "err " ++ toString e

def tols : List (String × Rat) := [("0", 0), ("1/2", 1/2), ("3/2", 3/2), ("1", 1), ("2", 2)]

/-- file mode: each line `Z <T|F> <tol> <v…>` or `S <tol> <v…>` (rationals as `n/d`); echo the line + result -/
def runFile (path : String) : IO Unit := do
  let out ← IO.getStdout
  let lines ← IO.FS.lines path
  for ln in lines do
    let toks := (ln.splitOn " ").filter (· ≠ "")
    match toks with
    | "Z" :: ka :: t :: vs =>
      match Wire.parseRat t, Wire.rats vs with
      | .ok t, .ok v => out.putStrLn s!"{ln} => {showR (zeroCrossingsE v (ka == "T") t)}"
      | _, _ => out.putStrLn s!"{ln} => bad"
    | "S" :: t :: vs =>
      match Wire.parseRat t, Wire.rats vs with
      | .ok t, .ok v => out.putStrLn s!"{ln} => {showR (switchedPeaksE v t)}"
      | _, _ => out.putStrLn s!"{ln} => bad"
    | _ => pure ()

def main (args : List String) : IO Unit := do
  if args.head? == some "file" then
    runFile (args.getD 1 "")
    return
  let maxLen := (args.head? >>= String.toNat?).getD 6
  let out ← IO.getStdout
  for n in List.range (maxLen + 1) do
    for vi in enum n do
      let v : List Rat := vi.map (fun (i : Int) => (i : Rat))
      for (ts, t) in tols do
        for ka in [true, false] do
          out.putStrLn s!"Z [{showL vi}] {if ka then "T" else "F"} {ts} {showR (zeroCrossingsE v ka t)}"
        out.putStrLn s!"S [{showL vi}] {ts} {showR (switchedPeaksE v t)}"
      out.putStrLn s!"Z [{showL vi}] F -1/2 {showR (zeroCrossingsE v false (-1/2))}"
      out.putStrLn s!"S [{showL vi}] -1/2 {showR (switchedPeaksE v (-1/2))}"
