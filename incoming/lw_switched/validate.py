"""Exhaustive correspondence check of Model/Switched.lean against eqsig (fixed tree).
usage: cd /tmp/repo_fixed && PYTHONPATH=/tmp/repo_fixed /venv/bin/python validate.py <lean_project_dir> [maxlen]
Runs `lake env lean --run Scratch.lean <maxlen>` in the project dir and compares line by line."""
import sys, subprocess, itertools
import numpy as np
from eqsig.fns.peaks_and_crossings import get_zero_crossings_array_indices as zc, get_switched_peak_array_indices as sw

proj = sys.argv[1]
maxlen = int(sys.argv[2]) if len(sys.argv) > 2 else 6
alphabet = [-2, -1, 0, 1, 2]
tols = [("0", 0.0), ("1/2", 0.5), ("3/2", 1.5), ("1", 1.0), ("2", 2.0)]

def run(f, *a):
    try:
        r = f(*a)
        return "ok " + " ".join(str(int(x)) for x in r)
    except Exception as e:
        return "err " + type(e).__name__

def sl(v): return " ".join(str(x) for x in v)

def expected():
    for n in range(maxlen + 1):
        for v in itertools.product(alphabet, repeat=n):
            v = list(v)
            for ts, t in tols:
                for ka in (True, False):
                    yield f"Z [{sl(v)}] {'T' if ka else 'F'} {ts} {run(zc, list(v), ka, t)}"
                yield f"S [{sl(v)}] {ts} {run(sw, list(v), t)}"
            yield f"Z [{sl(v)}] F -1/2 {run(zc, list(v), False, -0.5)}"
            yield f"S [{sl(v)}] -1/2 {run(sw, list(v), -0.5)}"

p = subprocess.run(["lake", "env", "lean", "--run", "Scratch.lean", str(maxlen)], cwd=proj, capture_output=True, text=True)
if p.returncode != 0:
    print(p.stderr); sys.exit(2)
got = [l for l in p.stdout.splitlines() if l and l[0] in "ZS"]
exp = list(expected())
bad = 0
if len(got) != len(exp):
    print("LINE COUNT MISMATCH", len(got), len(exp)); bad += 1
for g, e in zip(got, exp):
    if g != e:
        bad += 1
        if bad < 20: print("DIFF\n  lean  :", g, "\n  python:", e)
print(f"exhaustive: compared {len(exp)} lines, mismatches: {bad}")

# ---- random part: longer series over dyadic values k/4 (exact in binary64), zero-rich, several tolerances
import random, tempfile, os
from fractions import Fraction
rng = random.Random(12)
cases = []
for _ in range(3000):
    n = rng.randint(1, 40)
    mode = rng.random()
    if mode < 0.4:   vals = [Fraction(rng.choice([-8,-4,-2,-1,0,0,0,1,2,4,8]), 4) for _ in range(n)]
    elif mode < 0.8: vals = [Fraction(rng.randint(-12, 12), 4) for _ in range(n)]
    else:            vals = [Fraction(rng.choice([-1, 0, 1]) * rng.randint(0, 3), 8) for _ in range(n)]
    tol = rng.choice([Fraction(0), Fraction(1, 4), Fraction(1, 2), Fraction(1), Fraction(3, 2), Fraction(2), Fraction(3)])
    ka = rng.choice("TF")
    cases.append(("Z", ka, tol, vals)); cases.append(("S", None, tol, vals))
def fr(q): return str(q.numerator) if q.denominator == 1 else f"{q.numerator}/{q.denominator}"
with tempfile.NamedTemporaryFile("w", suffix=".txt", delete=False) as f:
    for kind, ka, tol, vals in cases:
        head = f"Z {ka} {fr(tol)}" if kind == "Z" else f"S {fr(tol)}"
        f.write(head + " " + " ".join(fr(x) for x in vals) + "\n")
    path = f.name
p = subprocess.run(["lake", "env", "lean", "--run", "Scratch.lean", "file", path], cwd=proj, capture_output=True, text=True)
if p.returncode != 0:
    print(p.stderr); sys.exit(2)
got = [l.split(" => ")[1] for l in p.stdout.splitlines() if " => " in l]
os.unlink(path)
rbad = 0
if len(got) != len(cases):
    print("RANDOM LINE COUNT MISMATCH", len(got), len(cases)); rbad += 1
for g, (kind, ka, tol, vals) in zip(got, cases):
    fv = [float(x) for x in vals]
    e = run(zc, fv, ka == "T", float(tol)) if kind == "Z" else run(sw, fv, float(tol))
    if g != e:
        rbad += 1
        if rbad < 20: print("DIFF", kind, ka, tol, [str(x) for x in vals], "\n  lean  :", g, "\n  python:", e)
print(f"random: compared {len(cases)} cases, mismatches: {rbad}")
sys.exit(1 if (bad or rbad) else 0)
