import sys, os, shutil
ROOT='/tmp/hw_prelude2/mut/lean/EqsigVerif/'
ORIG='/tmp/hw_prelude2/verif/lean/EqsigVerif/'
FILES=['Prelude/NpS.lean','Prelude/NpT.lean','Prelude/NpV.lean','Model/Butter.lean','Model/CavDpFloat.lean']
B1={
'Prelude/NpS.lean':[
 ('np.s.fadd',"| some x, some y => some (x + y)","| some x, some y => some (x + y + 1)"),
 ('np.s.fsub',"| some x, some y => some (x - y)","| some x, some y => some (y - x)"),
 ('np.s.fmul',"| some x, some y => some (x * y)","| some x, some y => some (x * y * 2)"),
 ('np.s.fdiv',"if y = 0 then none else some (x / y)","some (x / y)"),
 ('np.s.finite',"| some v => .ok v | none => .error .ZeroDivisionError","| some v => .ok v | none => .error .ValueError"),
 ('np.s.trunc_z',"if q < 0 then -(Rat.floor (-q)) else Rat.floor q","Rat.floor q"),
 ('np.s.lo_idx',"match lo with | none => 0 |","match lo with | none => 1 |"),
 ('np.s.hi_idx',"match hi with | none => n |","match hi with | none => n - 1 |"),
 ('np.s.head',"  | v :: _ => .ok v\n  | [] => .error .IndexError","  | v :: _ => .ok v\n  | [] => .error .ValueError"),
],
'Prelude/NpT.lean':[
 ('np.s.py_at',"| none => .error .IndexError","| none => .error .ValueError"),
 ('np.s.cummax_from',"| x :: xs => Np.max2 m x :: cummaxFrom (Np.max2 m x) xs","| x :: xs => Np.max2 m x :: cummaxFrom x xs"),
 ('np.s.trapz_axis0',"(fun y p => (y + p) / 2)","(fun y p => (y + p))"),
],
'Prelude/NpV.lean':[
 ('np.s.attr',"if present then .ok () else .error .AttributeError","if present then .error .AttributeError else .ok ()"),
 ('np.s.scipy_nonempty',"  | [] => .error .ValueError\n  | _ :: _ => .ok ()","  | [] => .error .IndexError\n  | _ :: _ => .ok ()"),
 ('np.s.linspace',"if n ≤ 1 then a else","if n ≤ 1 then b else"),
 ('np.s.isclose',"atol + rtol * Np.absv b","atol + rtol * Np.absv a"),
],
'Model/Butter.lean':[
 ('np.s.bt.csqrt',"if z.im < 0.0 then -t else t⟩","t⟩"),
 ('np.s.bt.prod',"def prodL : List β → β\n  | [] => 1","def prodL : List β → β\n  | [] => 0"),
 ('np.s.bt.mul_linear',"| x :: xs => (x - r * prev) :: mulLinearAux r x xs","| x :: xs => (x + r * prev) :: mulLinearAux r x xs"),
 ('np.s.bt.pow_n',"def powN (x : α) : Nat → α\n  | 0 => 1","def powN (x : α) : Nat → α\n  | 0 => x"),
 ('np.s.bt.buttap',"(((2 * j + 1 : Nat) : α)","(((2 * j : Nat) : α)"),
 ('np.s.bt.prewarp',"((4 : Nat) : α) * F.tan","((2 : Nat) : α) * F.tan"),
 ('np.s.bt.rel_deg',"Nat := s.p.length - s.z.length","Nat := s.p.length - s.z.length + 1"),
 ('np.s.bt.fns',"pi := 3.141592653589793","pi := 3.14159265358979"),
],
'Model/CavDpFloat.lean':[
 ('np.s.cv.log2',"[512, 256, 128, 64, 32, 16, 8, 4, 2, 1]","[512, 256, 128, 64, 32, 16, 8, 4, 2]"),
 ('np.s.cv.round_q',"Nat.beq (m % 2) 1)","Nat.beq (m % 2) 0)"),
 ('np.s.cv.cmp',"def le (x y : Dy) : Bool := Nat.ble","def le (x y : Dy) : Bool := Nat.blt"),
 ('np.s.cv.ceil_floor',"(x.m + (1 <<< x.k) - 1) >>> x.k","(x.m + (1 <<< x.k)) >>> x.k"),
]}
B2={
'Prelude/NpS.lean':[
 ('np.s.int_np_div',"(if a = 0 then .error .ValueError else .error .Other)","(if a = 0 then .error .ValueError else .error .ValueError)"),
 ('np.s.int_py_div',"if b = 0 then .error .ZeroDivisionError else .ok (truncZ (a / b))","if b = 0 then .error .ValueError else .ok (truncZ (a / b))"),
 ('np.s.velo_disp',"  | [] => .error .ValueError\n  | _ :: _ => .ok (Model.Displacements.veloDispTrap values dt)","  | [] => .ok ([], [])\n  | _ :: _ => .ok (Model.Displacements.veloDispTrap values dt)"),
 ('np.s.pga',"  | some p => .ok p\n  | none => .error .ValueError\n\n/-- `self.time`","  | some p => .ok p\n  | none => .error .IndexError\n\n/-- `self.time`"),
 ('np.s.time_arr',"(List.range n).map (fun (i : Nat) => (i : Rat) * dt)","(List.range (n + 1)).map (fun (i : Nat) => (i : Rat) * dt)"),
 ('np.s.slice_o',"(a.take (hiIdx a.length hi)).drop (loIdx a.length lo)","(a.drop (loIdx a.length lo)).take (hiIdx a.length hi)"),
 ('np.s.isub_scalar',"  if h ≤ l then .ok a\n  else match d with","  if h < l then .ok a\n  else match d with"),
 ('np.s.isub_array',"| [x] => isubScalarE a lo hi x","| [_] => .error .ValueError"),
 ('np.s.last',":= NpE.lastE x",":= headE x"),
 ('np.s.fmean',"(some ((x.length : Nat) : Rat))","(some ((x.length + 1 : Nat) : Rat))"),
 ('np.s.fill_to',"List.replicate (min k a.length) v ++ a.drop k","List.replicate k v ++ a.drop k"),
 ('np.s.diff_quot',"| y0 :: ys => some 0 ::","| y0 :: ys => y0 ::"),
],
'Prelude/NpT.lean':[
 ('np.s.cummax',"  | x :: xs => x :: cummaxFrom x xs","  | x :: xs => x :: cummaxFrom x (x :: xs)"),
 ('np.s.trapz_axis0',"trapzAxis0From (r.map (fun _ => 0)) r rs","trapzAxis0From r r rs"),
 ('np.s.add_from',"(base.drop i) v","(base.drop (i + 1)) v"),
],
'Prelude/NpV.lean':[
 ('np.s.calc_peak',"  | some p => .ok p\n  | none => .error .ValueError","  | some p => .ok p\n  | none => .error .IndexError"),
],
'Model/Butter.lean':[
 ('np.s.bt.poly',"roots.foldl mulLinear [1]","roots.foldl mulLinear [1, 0]"),
 ('np.s.bt.polyval',"acc * x + ck","acc + x * ck"),
 ('np.s.bt.lp2lp',"k := s.k * powN wo (relDeg s) }","k := s.k }"),
 ('np.s.bt.lp2hp',"prodL (s.p.map (fun r => -r))) }","prodL s.p) }"),
 ('np.s.bt.lp2bp',"k := s.k * powN bw (relDeg s) }","k := s.k * powN wo (relDeg s) }"),
 ('np.s.bt.bilinear',"List.replicate (relDeg s) (-1)","List.replicate (relDeg s) 1"),
 ('np.s.bt.zpk2tf',"(poly s.p).map (fun c => CxLike.re c))","(poly s.p).map (fun c => s.k * CxLike.re c))"),
 ('np.s.bt.accepts',"| a :: b :: _ => decide (a < b)","| a :: b :: _ => decide (a ≤ b)"),
],
'Model/CavDpFloat.lean':[
 ('np.s.cv.pps_of',"(fdiv (Dy.ofNat 1) dt).force fun q => q.floor","(fdiv (Dy.ofNat 1) dt).force fun q => q.ceil"),
 ('np.s.cv.arange',"(fmulNat j delta).force","(fmulNat j dt).force"),
 ('np.s.cv.selected',"(fmulNat (start + pps) dt).force fun xUpper","(fmulNat (start + pps + 1) dt).force fun xUpper"),
 ('np.s.cv.window',"isRangeFrom (selectedF dt pps (i * pps)) 0 pps","isRangeFrom (selectedF dt pps (i * pps)) 0 (pps + 1)"),
]}
B3={  # second mutants of multi-definition handlers
'Model/CavDpFloat.lean':[
 ('np.s.cv.cmp',"def eqv (x y : Dy) : Bool := Nat.beq","def eqv (x y : Dy) : Bool := Nat.ble"),
 ('np.s.cv.ceil_floor',"def floor (x : Dy) : Nat := x.m >>> x.k","def floor (x : Dy) : Nat := (x.m + 1) >>> x.k"),
 ('np.s.cv.arange',"(fdiv c dt).force fun q => q.ceil","(fdiv c dt).force fun q => q.floor"),
 ('np.s.cv.round_q',"let up := Nat.blt d (2 * r) ||","let up := Nat.ble d (2 * r) ||"),
],
'Model/Butter.lean':[
 ('np.s.bt.lp2hp',"z := s.z.map (fun r => CxLike.ofReal wo / r) ++ List.replicate (relDeg s) 0","z := s.z.map (fun r => CxLike.ofReal wo / r)"),
 ('np.s.bt.lp2bp',"p := s.p.map (fun r => half r + rt r) ++ s.p.map (fun r => half r - rt r)","p := s.p.map (fun r => half r - rt r) ++ s.p.map (fun r => half r + rt r)"),
 ('np.s.bt.bilinear',"p := s.p.map (fun r => (four + r) / (four - r))","p := s.p.map (fun r => (four - r) / (four + r))"),
 ('np.s.bt.fns',"cis := fun t => ⟨Float.cos t, Float.sin t⟩","cis := fun t => ⟨Float.sin t, Float.cos t⟩"),
 ('np.s.bt.accepts',"| .band => decide (2 ≤ wn.length)","| .band => decide (2 = wn.length)"),
],
'Prelude/NpS.lean':[
 ('np.s.isub_array',"else match d with\n    | [x]","else match d with\n    | [] => .ok a\n    | [x]"),
 ('np.s.int_np_div',"else .ok (truncZ (a / b))\n\n/-- `int(a / b)` for PYTHON","else .ok (Rat.floor (a / b))\n\n/-- `int(a / b)` for PYTHON"),
 ('np.s.isub_scalar',"| some v => .ok (a.take l ++ ((a.take h).drop l).map (· - v) ++ a.drop h)","| some v => .ok (a.take l ++ ((a.take h).drop l).map (· + v) ++ a.drop h)"),
],
}
B4={'Model/CavDpFloat.lean':[
 ('np.s.cv.fadd',"def fadd (x y : Dy) : Dy := roundQ ((x.m <<< y.k) + (y.m <<< x.k))","def fadd (x y : Dy) : Dy := roundQ ((x.m <<< y.k) + (y.m <<< y.k))"),
 ('np.s.cv.fsub',"roundQ ((x.m <<< y.k) - (y.m <<< x.k))","roundQ ((x.m <<< y.k) - (y.m <<< y.k))"),
 ('np.s.cv.fmul_nat',"roundQ (n * x.m)","roundQ ((n + 1) * x.m)"),
 ('np.s.cv.fdiv',"def fdiv (x y : Dy) : Dy := roundQ (x.m <<< y.k) (y.m <<< x.k)","def fdiv (x y : Dy) : Dy := roundQ (x.m <<< x.k) (y.m <<< y.k)"),
 ('np.s.cv.dt_of',"roundQ 1 pps","roundQ 1 (pps + 1)"),
]}
batch={'1':B1,'2':B2,'3':B3,'4':B4}[sys.argv[1]]
for f in FILES: shutil.copy(ORIG+f, ROOT+f)
exp=[]
for f,ms in batch.items():
    s=open(ROOT+f).read()
    for h,a,b in ms:
        assert s.count(a)>=1,(f,h,a)
        if s.count(a)>1: print('multi',h,s.count(a))
        s=s.replace(a,b,1); exp.append(h)
    open(ROOT+f,'w').write(s)
print(' '.join(exp))
