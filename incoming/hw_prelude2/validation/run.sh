#!/bin/bash
# usage: run.sh <batch>
cd /tmp/hw_prelude2/mut && EXP=$(python3 mutate.py $1 | tail -1) && cd lean && lake build eqsig_driver 2>&1 | grep -i "error" | head
cd /tmp/hw_prelude2/verif/harness && PRELUDE_DRIVER=/tmp/hw_prelude2/mut/lean/.lake/build/bin/eqsig_driver PYTHONPATH=/repo /venv/bin/python prelude_check_s.py 0 $2 2>&1 | grep -v condarc > /tmp/hw_prelude2/mut/out$1.txt
python3 - "$EXP" $1 <<'PY'
import sys,re,ast
exp=sys.argv[1].split()
s=open('/tmp/hw_prelude2/mut/out%s.txt'%sys.argv[2]).read()
m=re.search(r"failing=(\{.*?\})",s); d=ast.literal_eval(m.group(1))
d={k.replace('PRELUDE ',''):v for k,v in d.items()}
print('notes', re.search(r"notes=(\[.*?\])",s).group(1)[:600])
for h in exp: print(h, d.get(h,'NOT DETECTED'))
print('cascade:', {k:v for k,v in d.items() if k not in exp})
PY
