import EqsigVerif.Model.Surface
import EqsigVerif.Lemmas.Np
import EqsigVerif.Lemmas.Interp
import EqsigVerif.Lemmas.TimeStep
import EqsigVerif.Lemmas.TimeShift
import Mathlib.Tactic.Ring
import Mathlib.Tactic.Linarith
import Mathlib.Tactic.Positivity
/-!
# Lemmas about `Model/Surface.lean`
-/
namespace EqsigVerif.Model.Surface
open EqsigVerif.Wire (ErrKind)
open EqsigVerif.Np EqsigVerif.Interp
open EqsigVerif.Model.TimeShift

/-! ### the delay operator `D_s` -/

@[simp] theorem length_delayed (values : List ℚ) (s : ℚ) (w : ℕ) : (delayed values s w).length = w := by
  simp [delayed]

theorem delayed_getElem (values : List ℚ) (s : ℚ) (w k : ℕ) (hk : k < (delayed values s w).length) :
    (delayed values s w)[k] = interpUnit values 0 0 ((k : ℚ) - s) := by
  simp [delayed]

theorem interpUnit_nil (l r x : ℚ) : interpUnit [] l r x = 0 := by simp [interpUnit]

/-- integer delay: `D_s a = 0ˢ ++ a ++ 0…` on the padded width `n + ms` (`s ≤ ms`) -/
theorem delayed_nat (values : List ℚ) (s ms : ℕ) (h : s ≤ ms) :
    delayed values (s : ℚ) (values.length + ms) = shiftedRow values 0 ms (s : ℤ) := by
  have hlen : (shiftedRow values 0 ms (s : ℤ)).length = values.length + 0 + ms :=
    length_shiftedRow values 0 ms s (by omega) (by omega)
  apply List.ext_getElem
  · rw [length_delayed, hlen]; omega
  intro k hk1 hk2
  rw [delayed_getElem, ← getD_of_lt _ _ hk2, shiftedRow_getD values 0 ms s (by omega) k]
  rw [length_delayed] at hk1
  by_cases hne : values = []
  · subst hne; simp [interpUnit_nil]
  by_cases hks : k < s
  · have : (k : ℚ) - (s : ℚ) < 0 := by
      have : (k : ℚ) < (s : ℚ) := by exact_mod_cast hks
      linarith
    rw [interpUnit_left _ _ _ _ hne this, if_neg (by omega)]
  · have hsk : s ≤ k := not_lt.mp hks
    have hcast : (k : ℚ) - (s : ℚ) = ((k - s : ℕ) : ℚ) := by
      rw [Nat.cast_sub hsk]
    by_cases hkn : k - s < values.length
    · rw [hcast, interpUnit_node _ _ _ _ hkn, if_pos (by omega)]
      congr 1; omega
    · rw [if_neg (by omega)]
      have hn : 0 < values.length := List.length_pos_iff.mpr hne
      have : ((values.length - 1 : ℕ) : ℚ) < (k : ℚ) - (s : ℚ) := by
        rw [hcast]; exact_mod_cast (by omega : values.length - 1 < k - s)
      rw [interpUnit_right _ _ _ _ hne this]

theorem shiftedRow_zero_nat (values : List ℚ) (s ms : ℕ) :
    shiftedRow values 0 ms (s : ℤ) = List.replicate s 0 ++ values ++ List.replicate (ms - s) 0 := by
  unfold shiftedRow
  congr 2
  · congr 1; omega
  · omega

end EqsigVerif.Model.Surface
