import EqsigVerif.Model.Surface
import EqsigVerif.Model.TimeShift
import EqsigVerif.Lemmas.Interp
import EqsigVerif.Lemmas.TimeShift
import EqsigVerif.Lemmas.Surface
/-!
# C19 — Surface-energy and time-shift utilities match the shifted-wave definition

Models: `EqsigVerif/Model/Surface.lean`, `EqsigVerif/Model/TimeShift.lean`.
Spec vocabulary (in `Lemmas/`): `shiftedRow values se ee j = 0^(se+j) ++ values ++ 0^(ee−j)`,
`clipRow clip npts se row`, `delayed values s width` (= `D_s a`: delay by `s` samples, linear interpolation, zero fill).
-/
namespace EqsigVerif.Props.C19
open EqsigVerif.Np EqsigVerif.Interp
open EqsigVerif.Model.Surface EqsigVerif.Model.TimeShift

/-! ## C19.e — `put_array_in_2d_array`, `join_values_w_shifts` -/

/-- **C19.e** `put2d_spec`.  For a non-empty integer shift vector, `start_extras = se`, `end_extras = ee` are the
least naturals with `−se ≤ shifts[i] ≤ ee`; `put_array_in_2d_array` never raises and row `i` is
`0^(se+shifts[i]) ++ values ++ 0^(ee−shifts[i])` (width `npts + se + ee`) cut by `clip`:
`none` — whole row; `end` — first `npts + se` entries; `start` — without the first `se`; `both` — both cuts
(width `npts`). -/
theorem put2d_spec (values : List ℚ) (shifts : List ℤ) (clip : Clip) (hne : shifts ≠ []) :
    ∃ se ee : ℕ,
      (∀ j ∈ shifts, -(se : ℤ) ≤ j ∧ j ≤ (ee : ℤ)) ∧
      (ee = 0 ∨ (ee : ℤ) ∈ shifts) ∧ (se = 0 ∨ -(se : ℤ) ∈ shifts) ∧
      put2d values shifts clip =
        .ok (shifts.map (fun j => clipRow clip values.length se (shiftedRow values se ee j))) := by
  obtain ⟨se, ee, -, hb, hee, hse, h⟩ := EqsigVerif.Model.TimeShift.put2d_spec values shifts clip hne
  exact ⟨se, ee, hb, hee, hse, h⟩

example : put2d [1, 2, 3] [-1, 0, 2] .both = .ok [[2, 3, 0], [1, 2, 3], [0, 0, 1]] ∧
    put2d [1, 2, 3] [-1, 0, 2] .none = .ok [[1, 2, 3, 0, 0, 0], [0, 1, 2, 3, 0, 0], [0, 0, 0, 1, 2, 3]] := by
  decide +kernel

/-- **C19.e (entries)** `row[se + shifts[i] + t] = values[t]`, zero elsewhere — for every index `k`
(`getD`: also `0` outside the row). -/
theorem put2d_row_entries (values : List ℚ) (se ee : ℕ) (j : ℤ) (h : -(se : ℤ) ≤ j) (k : ℕ) :
    (shiftedRow values se ee j).getD k 0 =
      if (se : ℤ) + j ≤ (k : ℤ) ∧ (k : ℤ) < (se : ℤ) + j + (values.length : ℤ)
      then values.getD (k - ((se : ℤ) + j).toNat) 0 else 0 :=
  shiftedRow_getD values se ee j h k

example : (shiftedRow [1, 2, 3] 1 2 (-1)).getD 2 0 = 3 ∧ (shiftedRow [1, 2, 3] 1 2 2).getD 2 0 = 0 := by
  decide +kernel

/-- **C19.e (widths)** `npts + se + ee` (`none`), `npts + se` (`end`), `npts + ee` (`start`), `npts` (`both`). -/
theorem put2d_width (values : List ℚ) (se ee : ℕ) (j : ℤ) (clip : Clip) (h1 : -(se : ℤ) ≤ j) (h2 : j ≤ (ee : ℤ)) :
    (clipRow clip values.length se (shiftedRow values se ee j)).length =
      match clip with
      | .none => values.length + se + ee
      | .end => values.length + se
      | .start => values.length + ee
      | .both => values.length := by
  have hl := length_shiftedRow values se ee j h1 h2
  cases clip <;> simp only [clipRow, List.length_take, List.length_drop, hl] <;> omega

example : (clipRow .start 3 1 (shiftedRow [1, 2, 3] 1 2 (-1))).length = 5 := by decide +kernel

/-- **C19.e (join)** for non-negative shifts `join_values_w_shifts` is `a⁰ ± shifted`:
row `i` = `(±(0^s ++ values ++ 0^(mx−s))) + (values ++ 0^mx)` with `mx = max shifts`. -/
theorem join_spec (values : List ℚ) (shifts : List ℤ) (jt : JType) (hne : shifts ≠ [])
    (hnn : ∀ j ∈ shifts, 0 ≤ j) :
    ∃ mx : ℕ, (mx : ℤ) ∈ shifts ∧ (∀ j ∈ shifts, j ≤ (mx : ℤ)) ∧
      joinValuesWShifts values shifts jt = .ok (shifts.map (fun j =>
        List.zipWith (· + ·)
          (match jt with
            | .add => shiftedRow values 0 mx j
            | .sub => (shiftedRow values 0 mx j).map (- ·))
          (values ++ List.replicate mx 0))) := by
  obtain ⟨mx, -, h1, h2, h3⟩ := join_nonneg values shifts jt hne hnn
  exact ⟨mx, h1, h2, h3⟩

example : joinValuesWShifts [5, 1] [1, 2] .sub = .ok [[5, -4, -1, 0], [5, 1, -5, -1]] := by decide +kernel

/-- **C19.e (domain)** a negative shift makes the two widths differ and NumPy broadcasting fail:
for records of at least two samples the model (like the impl [observed]) raises `ValueError`. -/
theorem join_negative_shift_raises (values : List ℚ) (shifts : List ℤ) (jt : JType)
    (hneg : ∃ j ∈ shifts, j < 0) (hlen : 2 ≤ values.length) :
    joinValuesWShifts values shifts jt = .error .ValueError :=
  join_negative_raises values shifts jt hneg hlen

example : joinValuesWShifts [5, 1] [-1, 0] .add = .error .ValueError := by decide +kernel

/-! ## C19.b — integer delays -/

/-- **C19.b** integer delay: for `2·tt/dt = s ∈ ℕ` (`s ≤ max_shift = ms`) the interpolated down-going wave on the
padded length `npts + ms` is exactly `0^s ++ a ++ 0^(ms−s)` … -/
theorem integer_delay (values : List ℚ) (s ms : ℕ) (h : s ≤ ms) :
    delayed values (s : ℚ) (values.length + ms) =
      List.replicate s 0 ++ values ++ List.replicate (ms - s) 0 := by
  rw [delayed_nat values s ms h, shiftedRow_zero_nat]

example : delayed [1, 2, 3] ((2 : ℕ) : ℚ) (3 + 3) = [0, 0, 1, 2, 3, 0] := by decide +kernel

/-- … which is the row `put_array_in_2d_array(values, shifts)` produces: for natural shifts the un-clipped 2-D array
equals the array of delayed records on the width `npts + max(shifts)`. -/
theorem integer_delay_eq_put2d (values : List ℚ) (shifts : List ℕ) (hne : shifts ≠ []) :
    ∃ ms : ℕ, ms ∈ shifts ∧ (∀ s ∈ shifts, s ≤ ms) ∧
      put2d values (shifts.map (fun (s : ℕ) => (s : ℤ))) .none =
        .ok (shifts.map (fun (s : ℕ) => delayed values (s : ℚ) (values.length + ms))) := by
  have hne' : shifts.map (fun (s : ℕ) => (s : ℤ)) ≠ [] := by
    intro h; exact hne (List.map_eq_nil_iff.mp h)
  obtain ⟨se, ee, -, hb, hee, hse, h⟩ := EqsigVerif.Model.TimeShift.put2d_spec values (shifts.map (fun (s : ℕ) => (s : ℤ))) .none hne'
  have hse0 : se = 0 := by
    rcases hse with h | h
    · exact h
    · simp only [List.mem_map] at h
      obtain ⟨s, _, hs⟩ := h; omega
  subst hse0
  have hle : ∀ s ∈ shifts, s ≤ ee := by
    intro s hs
    have := (hb (s : ℤ) (by simp only [List.mem_map]; exact ⟨s, hs, rfl⟩)).2
    omega
  have hmem : ee ∈ shifts := by
    rcases hee with h0 | h0
    · obtain ⟨s, hs⟩ := List.exists_mem_of_ne_nil shifts hne
      have := hle s hs
      have : s = ee := by omega
      rw [← this]; exact hs
    · simp only [List.mem_map] at h0
      obtain ⟨s, hs, hs'⟩ := h0
      have : s = ee := by omega
      rw [← this]; exact hs
  refine ⟨ee, hmem, hle, ?_⟩
  rw [h, List.map_map]
  congr 1
  apply List.map_congr_left
  intro s hs
  simp only [Function.comp, clipRow]
  rw [delayed_nat values s ee (hle s hs)]

example : put2d [1, 2, 3] [0, 2, 1] .none = .ok ([0, 2, 1].map (fun (s : ℕ) => delayed [1, 2, 3] (s : ℚ) (3 + 2))) := by
  decide +kernel

end EqsigVerif.Props.C19
