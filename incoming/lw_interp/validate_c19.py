"""C19 half of the validation (imported by validate.py): eqsig.surface and eqsig.fns.time_shift"""
import itertools, random
from fractions import Fraction as Fr
import numpy as np
import eqsig
from eqsig import surface as sf
from eqsig.fns import time_shift as tsh


def gen(V):
    fr, srat, srats, sbool, add, run_py = V.fr, V.srat, V.srats, V.sbool, V.add, V.run_py
    rnd = random.Random(19)

    def arr2(a):
        a = np.asarray(a)
        if a.ndim == 1:
            return [["1d"], [fr(v) for v in a]]
        return [["2d", str(a.shape[0])]] + [[fr(v) for v in row] for row in a]

    def arr2d(a):
        a = np.asarray(a)
        assert a.ndim == 2
        return [["2d", str(a.shape[0])]] + [[fr(v) for v in row] for row in a]

    # ---------------- put_array_in_2d_array / join_values_w_shifts / join_sig_w_time_shift
    vals_l = [[], [5], [1, -2], [3, 0, -4], [1, 2, 4, 8], [2, -1, 0, 7, 7]]
    shifts_l = [[], [0], [2], [-2], [0, 1, 3], [-1, 0, 2], [-3, -1], [0, 0], [4, -4, 0, 1], [1, 1, 2], [-1, -1], [5, 2],
                [-1, 0], [0, -2, -2, 1]]
    for v, sh in itertools.product(vals_l, shifts_l):
        for clip in ['none', 'start', 'end', 'both']:
            add('put_array_in_2d_array', f"put2d|{srats(v)}|{' '.join(map(str, sh))}|{clip}",
                run_py(lambda v=v, sh=sh, clip=clip: arr2d(tsh.put_array_in_2d_array(np.array(v, dtype=float), np.array(sh, dtype=int), clip=clip))))
        for jt in ['add', 'sub']:
            add('join_values_w_shifts', f"join_values|{srats(v)}|{' '.join(map(str, sh))}|{jt}",
                run_py(lambda v=v, sh=sh, jt=jt: arr2d(tsh.join_values_w_shifts(np.array(v, dtype=float), np.array(sh, dtype=int), jtype=jt))))
    for v in vals_l[1:]:
        for dt in [1.0, 0.5, 0.25]:
            for tsl in [[0.0], [dt], [0.0, dt / 2, dt, 1.75 * dt, 3 * dt], [2 * dt, 0.99 * dt], [-dt / 2, dt], [-dt, 0.0], [-2.5 * dt]]:
                for jt in ['add', 'sub']:
                    add('join_sig_w_time_shift', f"join_sig|{srats(v)}|{srat(dt)}|{srats(tsl)}|{jt}",
                        run_py(lambda v=v, dt=dt, tsl=tsl, jt=jt: arr2d(tsh.join_sig_w_time_shift(
                            eqsig.AccSignal(np.array(v, dtype=float), dt), np.array(tsl), jtype=jt))))
    # ---------------- time_indices
    for npts in [0, 5, 10]:
        for dt in [1.0, 0.5, 0.25]:
            for start, end in [(0.0, -1), (1.0, 2.0), (0.3, 2.4), (1.0, 4.75), (0.0, 100.0), (-1.3, -1.0), (0.5, -2.0), (0.0, 0.0),
                               (2.0, 2.25)]:
                add('time_indices', f"time_indices|{npts}|{srat(dt)}|{srat(start)}|{srat(end)}|F",
                    run_py(lambda npts=npts, dt=dt, start=start, end=end: [[fr(x) for x in tsh.time_indices(npts, dt, start, end, False)]]))
            for start, end in [(0, -1), (1, 5), (2, 10), (3, 11), (0, 0), (-2, 4)]:
                add('time_indices', f"time_indices|{npts}|{srat(dt)}|{start}|{end}|T",
                    run_py(lambda npts=npts, dt=dt, start=start, end=end: [[fr(x) for x in tsh.time_indices(npts, dt, start, end, True)]]))
    add('time_indices', "time_indices|5|0|1|2|F", run_py(lambda: [[fr(x) for x in tsh.time_indices(5, 0.0, 1.0, 2.0, False)]]))

    # ---------------- trim_to_length (stand-alone, arbitrary 2-D input)
    for case in range(400):
        m = rnd.choice([1, 1, 2, 3])
        W = rnd.choice([1, 2, 4, 6, 9])
        npts = rnd.choice([0, 1, 2, 3, 4, 6])
        dt = rnd.choice([1.0, 0.5, 0.25])
        tts = [rnd.choice([0, 1, 2, 3, 5, 6, 8, -1, -4]) * dt / 4 * rnd.choice([1, 1, 2]) for _ in range(m)]
        if case % 25 == 0:
            tts = []
        stt = rnd.choice([0, 0, 1, 2, 4, 6, 10, -2, 3]) * dt / 2
        rows = [[rnd.randint(-5, 5) for _ in range(W)] for _ in range(max(m + rnd.choice([0, 0, 0, 1, -1]), 0))]
        for trim, start in itertools.product([True, False], repeat=2):
            def f(rows=rows, npts=npts, tts=tts, dt=dt, trim=trim, start=start, stt=stt, W=W):
                vals = np.array(rows, dtype=float).reshape((len(rows), W))
                return arr2d(sf.trim_to_length(vals, npts, np.array(tts, dtype=float), dt, trim=trim, start=start, s2s_travel_time=stt))
            line = f"trim_to_length|{npts}|{srats(tts)}|{srat(dt)}|{sbool(trim)}|{sbool(start)}|{srat(stt)}" + "".join("|" + srats(r) for r in rows)
            add('trim_to_length', line, run_py(f))

    # ---------------- calc_surface_energy / calc_cum_abs_surface_energy / get_time_shift_motions
    recs = [[4], [1, -2], [3, 0, -4], [1, 2, -1, 3], [0, 0, 2, 2, -6, 1], [2, -2, 2, -2, 2, -2, 2], [1, 0, 0, 0, 0, 0, 0, -1, 3],
            [rnd.randint(-4, 4) for _ in range(64)]]
    def tt_sets(dt):
        q = dt / 4
        return [('s', 0.0), ('s', 2 * q), ('s', 3 * q), ('a', [0.0]), ('a', [q]), ('a', [2 * q]), ('a', [4 * q]), ('a', [5 * q]),
                ('a', [0.0, 2 * q, 4 * q, 6 * q]), ('a', [q, 3 * q]), ('a', [8 * q, 5 * q]), ('a', [4 * q, 4 * q]), ('a', [0.0, 7 * q, 2 * q]),
                ('l', [q, 2 * q]), ('a', [-q / 2]), ('a', [-4 * q]), ('a', []), ('a', [-q, 4 * q])]
    funcs = [('surface_energy', sf.calc_surface_energy), ('cum_abs_surface_energy', sf.calc_cum_abs_surface_energy),
             ('time_shift_motions', sf.get_time_shift_motions)]
    combos = []
    for vals in recs:
        for dt in [1.0, 0.5, 0.25]:
            for kind, tts in tt_sets(dt):
                combos.append((vals, dt, kind, tts))
    rnd.shuffle(combos)
    ncase = 0
    for ci, (vals, dt, kind, tts) in enumerate(combos):
        m = 1 if kind == 's' else len(tts)
        # every option combination on every combo; stt / reductions rotate
        for oi, (nodal, trim, start) in enumerate(itertools.product([True, False], repeat=3)):
            stt = [0.0, dt, 1.5 * dt, 0.0, 5 * dt, 0.75 * dt, -dt, 2 * dt][(ci + oi) % 8]
            rsel = (ci * 3 + oi) % 9
            if rsel in (0, 1, 2):
                red = ('S', [1.0, 0.5, 2.0][rsel], [1.0, 0.75, -0.5][rsel])
            elif rsel in (3, 4, 5):
                red = ('R', [rnd.choice([1.0, 0.5, 2.0, 0.25]) for _ in range(m)], [rnd.choice([1.0, 0.5, 1.5, -1.0]) for _ in range(m)])
            elif rsel == 6:
                red = ('R', [0.5], [2.0])
            elif rsel == 7:
                red = ('R', [1.0, 0.5, 2.0][:rnd.choice([0, 2, 3])], [rnd.choice([1.0, 0.5]) for _ in range(m)])
            else:
                red = ('R', [rnd.choice([1.0, 0.5]) for _ in range(m)], [1.0, 0.5, 2.0][:rnd.choice([0, 2, 3])])
            for name, fn in funcs:
                def f(vals=vals, dt=dt, kind=kind, tts=tts, nodal=nodal, trim=trim, start=start, stt=stt, red=red, fn=fn):
                    a = eqsig.AccSignal(np.array(vals, dtype=float), dt)
                    t = tts if kind in ('s', 'l') else np.array(tts, dtype=float)
                    if red[0] == 'S':
                        u, d = red[1], red[2]
                    else:
                        u, d = np.array(red[1], dtype=float), np.array(red[2], dtype=float)
                    return arr2(fn(a, t, nodal=nodal, up_red=u, down_red=d, stt=stt, trim=trim, start=start))
                ttl = [tts] if kind == 's' else tts
                if red[0] == 'S':
                    rs = f"S|{srat(red[1])}|{srat(red[2])}"
                else:
                    rs = f"R|{srats(red[1])}|{srats(red[2])}"
                line = f"{name}|{srats(vals)}|{srat(dt)}|{srats(ttl)}|{sbool(nodal)}|{rs}|{srat(stt)}|{sbool(trim)}|{sbool(start)}"
                add(name, line, run_py(f))
