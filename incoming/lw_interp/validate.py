#!/venv/bin/python
"""
Differential validation of lw_interp's Lean models (C14 / C19) against the real Python code.

    cd /tmp/repo_fixed && PYTHONPATH=/tmp/repo_fixed /venv/bin/python /tmp/lw_interp/validate.py [/tmp/lw_interp]

For every case: build the request line of the Wire protocol, evaluate the Python function, run all request
lines through `lake env lean --run ValidateMain.lean` (same handlers as the driver would link) and compare
*exactly* (fractions.Fraction(float) of the Python outputs against the rationals printed by Lean); which
inputs raise (and the exception kind) is compared too.
"""
import sys, subprocess, itertools, random, warnings
from fractions import Fraction as Fr
import numpy as np

LEAN_DIR = sys.argv[1] if len(sys.argv) > 1 else '/tmp/lw_interp'
random.seed(20260926)
warnings.simplefilter('ignore')

import eqsig
from eqsig.fns import time_step as ts
from eqsig.fns import time_shift as tsh
from eqsig import surface as sf


# ---------------------------------------------------------------- wire helpers
def fr(x):
    if isinstance(x, Fr):
        return x
    if isinstance(x, (int, np.integer)):
        return Fr(int(x))
    return Fr(float(x))


def srat(x):
    x = fr(x)
    return str(x.numerator) if x.denominator == 1 else f"{x.numerator}/{x.denominator}"


def srats(xs):
    return " ".join(srat(x) for x in xs)


def sbool(b):
    return "T" if b else "F"


def sopt(x):
    return "-" if x is None else srat(x)


def parse_rat(s):
    if "/" in s:
        a, b = s.split("/")
        return Fr(int(a), int(b))
    return Fr(int(s))


ERRMAP = {'SignalProcessingWarning': 'Other'}


def errkind(e):
    n = type(e).__name__
    return ERRMAP.get(n, n)


CASES = []  # (section, request_line, expected, meta)   expected = ('ok', [list of list of Fraction]) | ('err', kind)


def add(section, line, expected, meta=None):
    CASES.append((section, line, expected, meta))


def run_py(f):
    try:
        return ('ok', f())
    except Exception as e:  # noqa
        return ('err', errkind(e))


# ---------------------------------------------------------------- np.interp (unit grid + general)
def gen_interp():
    fps = [[], [3], [1, 3], [2, -1, 4], [0, 0, 5, 5, -2], [1, 2, 3, 4, 5, 6, 7]]
    xss = [[], [0], [-1, Fr(-1, 4), 0, Fr(1, 4), Fr(1, 2), 1, Fr(5, 4), 2, Fr(11, 4), 3, 4, Fr(25, 4), 6, Fr(13, 2), 100]]
    for fp in fps:
        for xs in xss:
            for l, r in [(None, None), (0, 0), (Fr(-7), None), (None, Fr(9, 2))]:
                def f(fp=fp, xs=xs, l=l, r=r):
                    out = np.interp(np.array([float(x) for x in xs]), np.arange(len(fp)), np.array(fp, dtype=float),
                                    left=None if l is None else float(l), right=None if r is None else float(r))
                    return [[fr(v) for v in out]]
                add('interp_unit', f"interp_unit|{srats(xs)}|{srats(fp)}|{sopt(l)}|{sopt(r)}", run_py(f))
    xps = [([], []), ([1], [5]), ([0, 2], [1, 5]), ([-2, 0, Fr(1, 2), Fr(9, 2)], [3, -1, -1, 7]), ([0, 1, 2], [1, 2]),
           ([0, 1, 3, 7, 8], [0, 4, 4, -4, 0])]
    xs2 = [[], [-3, -2, -1, 0, Fr(1, 4), Fr(1, 2), 1, 2, 3, Fr(7, 2), 4, 5, 7, Fr(15, 2), 8, 9]]
    for xp, fp in xps:
        for xs in xs2:
            for l, r in [(None, None), (0, 0), (Fr(-7), Fr(9, 2))]:
                def f(fp=fp, xp=xp, xs=xs, l=l, r=r):
                    out = np.interp(np.array([float(x) for x in xs]), np.array(xp, dtype=float), np.array(fp, dtype=float),
                                    left=None if l is None else float(l), right=None if r is None else float(r))
                    return [[fr(v) for v in out]]
                add('np_interp', f"np_interp|{srats(xs)}|{srats(xp)}|{srats(fp)}|{sopt(l)}|{sopt(r)}", run_py(f))


    # random strictly increasing grids with power-of-two spacings (slopes are then exact doubles)
    rnd = random.Random(5)
    for case in range(60):
        n = rnd.choice([1, 2, 3, 5, 8])
        xp = [Fr(rnd.randint(-8, 8), 4)]
        for _ in range(n - 1):
            xp.append(xp[-1] + Fr(rnd.choice([1, 2, 4, 8]), rnd.choice([1, 2, 4, 8])))
        fp = [Fr(rnd.randint(-16, 16), rnd.choice([1, 2, 4])) for _ in range(n)]
        xs = [xp[0] - 1, xp[-1] + Fr(1, 2)] + list(xp) + [xp[0] + Fr(rnd.randint(0, 64), 8) for _ in range(8)]
        l, r = rnd.choice([(None, None), (Fr(0), Fr(0)), (Fr(-3), Fr(5, 2))])
        def f(fp=fp, xp=xp, xs=xs, l=l, r=r):
            out = np.interp(np.array([float(x) for x in xs]), np.array([float(v) for v in xp]), np.array([float(v) for v in fp]),
                            left=None if l is None else float(l), right=None if r is None else float(r))
            return [[fr(v) for v in out]]
        add('np_interp', f"np_interp|{srats(xs)}|{srats(xp)}|{srats(fp)}|{sopt(l)}|{sopt(r)}", run_py(f))


# ---------------------------------------------------------------- C14
def impl_factor(dt, target):
    """the impl's decision, replicated on the same binary64 operations, returned as the exact rational it means"""
    factor = dt / target
    if factor == 1:
        return Fr(1)
    elif factor > 1:
        return Fr(int(np.ceil(factor)))
    else:
        return Fr(1, int(np.floor(1 / factor)))


def dyadic(fq):
    d = fq.denominator
    return d & (d - 1) == 0


def pow2(fq):
    n = fq.numerator
    return fq.denominator == 1 and n & (n - 1) == 0


def gen_timestep():
    recs = [[], [5], [1, -2], [3, 0, -4], [1, 2, 4, 8], [0, 0, 3, 3, -1], [2, -2, 2, -2, 2, -2], [7, 1, 1, 0, -3, 5, 9],
            [1, 0, 0, 0, 0, 0, 0, 1], [4, 3, 2, 1, 0, -1, -2, -3, -4], list(range(10)), [(-1) ** i * i for i in range(11)],
            [random.randint(-8, 8) for _ in range(12)], [random.randint(-8, 8) for _ in range(13)],
            [random.randint(-8, 8) for _ in range(33)]]
    # (dt, target) pairs: quotients 1, 2, 3, 4, 1/2, 1/3, 1/4 exactly (dyadic dt, target), plus non-commensurate ones
    pairs = [(1.0, 1.0), (0.5, 0.5), (0.25, 0.25), (1.0, 0.5), (0.5, 0.25), (1.0, 0.25), (0.75, 0.25), (1.5, 0.5),
             (0.5, 1.0), (0.25, 0.5), (0.25, 1.0), (0.25, 0.75), (0.5, 1.5), (1.0, 3.0), (1.0, 9.0),
             (1.0, 0.75), (0.5, 0.75), (1.0, 1.5), (0.25, 0.625), (1.0, 0.3), (0.5, 0.35), (0.25, 0.3), (1.0, 0.4)]
    for vals in recs:
        for dt, target in pairs:
                for even in (True, False):
                    fct = impl_factor(dt, target)
                    # exact comparison possible iff every abscissa i/factor and dt/factor is a double
                    exact = pow2(fct) or fct < 1
                    def f(vals=vals, dt=dt, target=target, even=even):
                        out, ndt = ts.interp_array_to_approx_dt(np.array(vals, dtype=float), dt, target, even=even)
                        return [[fr(v) for v in out], [fr(ndt)]]
                    exp = run_py(f)
                    meta = {'exact': exact, 'k': fct}
                    add('interp_array_to_approx_dt', f"interp_to_approx_dt|{srats(vals)}|{srat(dt)}|{srat(fct)}|{sbool(even)}", exp, meta)
                    # decision on the exact quotient: compared where the binary64 quotient (and its reciprocal) is exact
                    q = Fr(dt) / Fr(target)
                    if Fr(dt / target) == q and (q >= 1 or Fr(1 / (dt / target)) == 1 / q):
                        add('factor_rule', f"factor_rule|{srat(dt)}|{srat(target)}", ('ok', [[fct]]))
                        add('interp_array_to_approx_dt(exact q)', f"interp_array_to_approx_dt|{srats(vals)}|{srat(dt)}|{srat(target)}|{sbool(even)}", exp, meta)
    # long records
    for n in [100, 257, 400]:
        vals = [random.randint(-50, 50) for _ in range(n)]
        for dt, target in [(1.0, 0.5), (0.5, 1.0), (0.25, 0.75), (1.0, 0.25), (1.0, 9.0), (0.5, 0.5)]:
            for even in (True, False):
                fct = impl_factor(dt, target)
                def f(vals=vals, dt=dt, target=target, even=even):
                    out, ndt = ts.interp_array_to_approx_dt(np.array(vals, dtype=float), dt, target, even=even)
                    return [[fr(v) for v in out], [fr(ndt)]]
                add('interp_array_to_approx_dt', f"interp_to_approx_dt|{srats(vals)}|{srat(dt)}|{srat(fct)}|{sbool(even)}", run_py(f),
                    {'exact': True, 'k': fct})
    # object level wrapper interp_to_approx_dt and resample_to_approx_dt (length / new dt only)
    for vals in recs[2:]:
        for dt in [1.0, 0.5, 0.25]:
            for m in [1.0, 0.5, 0.25, 2.0, 4.0, 3.0, 1.5]:
                target = dt * m
                for even in (True, False):
                    fct = impl_factor(dt, target)
                    def f(vals=vals, dt=dt, target=target, even=even):
                        a = eqsig.AccSignal(np.array(vals, dtype=float), dt)
                        b = ts.interp_to_approx_dt(a, target, even=even)
                        return [[fr(v) for v in b.values], [fr(b.dt)]]
                    add('interp_to_approx_dt(obj)', f"interp_to_approx_dt|{srats(vals)}|{srat(dt)}|{srat(fct)}|{sbool(even)}",
                        run_py(f), {'exact': pow2(fct) or fct < 1, 'k': fct})
                    def g(vals=vals, dt=dt, target=target, even=even):
                        a = eqsig.AccSignal(np.array(vals, dtype=float), dt)
                        b = ts.resample_to_approx_dt(a, target, even=even)
                        return [[Fr(b.npts)]]
                    add('resample_npts', f"resample_npts|{len(vals)}|{srat(fct)}|{sbool(even)}", run_py(g))


# ---------------------------------------------------------------- main
def tok(x):
    return x if isinstance(x, str) else srat(x)


def compare(exp, got, meta):
    if exp[0] == 'err':
        return got == f"err|{exp[1]}", None
    if not got.startswith("ok|") and got != "ok":
        return False, None
    parts = got.split("|")[1:]
    gl = [p.split() for p in parts]
    el = [[tok(t) for t in l] for l in exp[1]]
    while len(gl) < len(el):
        gl.append([])
    while len(gl) > len(el) and gl[-1] == []:
        gl.pop()
    if gl == el:
        return True, None
    if meta and meta.get('exact') is False:
        # non-dyadic refinement factor: abscissae i/k are rounded by the impl; lengths must agree, nodes exactly
        if [len(a) for a in gl] != [len(a) for a in el]:
            return False, None
        k = meta['k']
        worst = Fr(0)
        for r, (a, b) in enumerate(zip(gl, el)):
            for i, (x, y) in enumerate(zip(a, b)):
                x, y = parse_rat(x), parse_rat(y)
                if r == 0 and k.denominator == 1 and i % int(k) == 0 and x != y:
                    return False, None
                worst = max(worst, abs(x - y))
        return worst <= Fr(1, 10 ** 12), float(worst)
    return False, None


def main():
    gen_interp()
    gen_timestep()
    try:
        import validate_c19  # noqa  (second half, same CASES list)
        validate_c19.gen(sys.modules[__name__])
    except ImportError:
        pass
    inp = "\n".join(c[1] for c in CASES) + "\n"
    p = subprocess.run(["lake", "env", "lean", "--run", "ValidateMain.lean"], cwd=LEAN_DIR, input=inp,
                       capture_output=True, text=True)
    outs = [l for l in p.stdout.split("\n")]
    if p.returncode != 0:
        print("lean failed:", p.stderr[:2000])
    if outs and outs[-1] == "":
        outs.pop()
    if len(outs) != len(CASES):
        print(f"PROTOCOL ERROR: {len(CASES)} requests but {len(outs)} responses")
        return 2
    if "--show" in sys.argv:
        for i in range(0, len(CASES), max(1, len(CASES) // 40)):
            print(CASES[i][1][:150], "=>", outs[i][:150])
    stats = {}
    nfail = 0
    for (sec, line, exp, meta), got in zip(CASES, outs):
        ok, slack = compare(exp, got, meta)
        st = stats.setdefault(sec, {'n': 0, 'ok': 0, 'err_cases': 0, 'inexact': 0, 'worst': 0.0})
        st['n'] += 1
        st['ok'] += bool(ok)
        st['err_cases'] += exp[0] == 'err'
        if slack is not None:
            st['inexact'] += 1
            st['worst'] = max(st['worst'], slack)
        if not ok:
            nfail += 1
            if nfail <= 15:
                print("MISMATCH", sec, line)
                print("   python:", exp if exp[0] == 'err' else [[tok(v) for v in l] for l in exp[1]])
                print("   lean  :", got[:400])
    for sec, st in stats.items():
        print(f"{sec:28s} cases={st['n']:5d} agree={st['ok']:5d} raising={st['err_cases']:4d} "
              f"compared-with-rounding-slack={st['inexact']} (worst {st['worst']:.2e})")
    print("TOTAL", len(CASES), "mismatches", nfail)
    return 1 if nfail else 0


if __name__ == '__main__':
    sys.exit(main())
