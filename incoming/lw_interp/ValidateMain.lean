import EqsigVerif.Prelude.Wire
import EqsigVerif.Handlers.TimeStep
import EqsigVerif.Handlers.Surface
/-! validation driver for lw_interp's handlers: same line protocol as `Driver.lean` -/
open EqsigVerif EqsigVerif.Wire

def vtable : List (String × Handler) :=
  Handlers.TimeStep.handlers ++ Handlers.Surface.handlers

def dispatch (line : String) : String :=
  match line.splitOn "|" with
  | fn :: args =>
    match vtable.lookup fn.trimAscii.toString with
    | some h => renderOutcome (h (args.map tokens))
    | none => s!"bad|unknown fn '{fn}'"
  | [] => "bad|empty"

partial def loop (inp out : IO.FS.Stream) : IO Unit := do
  let line ← inp.getLine
  if line.isEmpty then return ()
  let l := (line.dropEndWhile (fun c => c == '\n' || c == '\r')).toString
  out.putStrLn (dispatch l)
  loop inp out

def main : IO Unit := do
  let inp ← IO.getStdin
  let out ← IO.getStdout
  loop inp out
  out.flush
