"""Differential validation of EqsigVerif/Model/Im.lean (+ Displacements) against eqsig (tree /tmp/repo_fixed).
Run:  cd /tmp/repo_fixed && PYTHONPATH=/tmp/repo_fixed /venv/bin/python /tmp/lw_quad/scratch/validate.py
The Lean side is evaluated by `lake env lean --run scratch/ImDriver.lean` in /tmp/lw_quad (line protocol of Prelude/Wire.lean).
All inputs are integers / dyadic rationals so every float operation of the Python code is exact; outputs are
compared as exact rationals (Arias constant and CAVdp's division by 9.81: relative 1e-12)."""
import subprocess, sys, random, math, warnings, os
from fractions import Fraction as Fr
import numpy as np
import eqsig
from eqsig import im
from scipy.integrate import cumulative_trapezoid

LEAN_DIR = os.environ.get("LEAN_DIR", "/tmp/lw_quad")
rnd = random.Random(20260926)
warnings.simplefilter("ignore")

def q(x):
    x = Fr(x)
    return f"{x.numerator}/{x.denominator}" if x.denominator != 1 else f"{x.numerator}"
def qs(l): return " ".join(q(x) for x in l)
def pq(tok):
    if tok == "None": return None
    return Fr(tok)

cases = []   # (label, request line, expected)  expected = ("ok", [[Fraction|None…]…], tol) | ("err", kind)

def pyrun(f):
    try:
        r = f()
    except Exception as e:
        return ("err", type(e).__name__)
    return ("ok", r)

def as_lists(r):
    """python result -> list of lists of Fraction/None"""
    if isinstance(r, tuple):
        if all(np.ndim(x) == 0 for x in r):
            return [[None if x is None else Fr(float(x)) for x in r]]
        return [[Fr(float(v)) for v in np.asarray(x)] for x in r]
    if np.ndim(r) == 0:
        return [[Fr(float(r))]]
    return [[Fr(float(v)) for v in np.asarray(r)]]

def add(label, line, f, tol=0, post=None):
    r = pyrun(f)
    if r[0] == "ok":
        out = as_lists(r[1])
        if post: out = post(out)
        cases.append((label, line, ("ok", out, tol)))
    else:
        cases.append((label, line, r))

DTS = [Fr(1), Fr(1, 2), Fr(1, 4)]
def records():
    recs = [[], [0], [2], [-3], [0, 0], [1, -1], [0, 5], [5, 0], [0, 5, 0], [0, 0, 5], [1, 1, 1], [0, 0, 0, 0],
            [3, 2, -1, 1, 0, 1, -1], [0, 0, 3, 2, -1, 1, 0, 1, -1], [0, 0, 0, 7, 0, 0], [1, 2, 3, 4, 5], [-1, -1, -1, -1]]
    for _ in range(70):
        n = rnd.choice([1, 2, 3, 4, 5, 6, 8, 12, 20, 33])
        den = rnd.choice([1, 1, 2, 4, 8])
        kind = rnd.random()
        if kind < 0.6:
            r = [Fr(rnd.randint(-6, 6), den) for _ in range(n)]
        elif kind < 0.8:   # plateaus / zeros
            r = [Fr(rnd.choice([0, 0, 0, 1, -1, 2]), den) for _ in range(n)]
        else:              # zero prefix and suffix
            k0, k1 = rnd.randint(0, 3), rnd.randint(0, 3)
            r = [Fr(0)] * k0 + [Fr(rnd.randint(-6, 6), den) for _ in range(n)] + [Fr(0)] * k1
        recs.append(r)
    return recs
RECS = records()
def sig(rec, dt): return eqsig.AccSignal(np.array([float(x) for x in rec], dtype=float), float(dt))

K_ARIAS = np.pi / (2 * 9.81)

# ---- cumulative series, velocity/displacement, peaks, trapz
for rec in RECS:
    dt = rnd.choice(DTS)
    hd = f"|{q(dt)}|{qs(rec)}"
    add("velocity", "velocity" + hd, lambda: sig(rec, dt).velocity)
    add("displacement", "displacement" + hd, lambda: sig(rec, dt).displacement)
    for trap in (True, False):
        if len(rec) > 0 or not trap:
            add("velodisp", f"velodisp|{'T' if trap else 'F'}|{q(dt)}|{qs(rec)}",
                lambda: eqsig.displacements.calc_velo_and_disp_from_accel_arr(np.array([float(x) for x in rec]), float(dt), trap=trap))
    add("peaks", "peaks" + hd, lambda: (sig(rec, dt).pga, sig(rec, dt).pgv, sig(rec, dt).pgd))
    add("calc_peak", f"calc_peak|{qs(rec)}", lambda: im.calc_peak(np.array([float(x) for x in rec])))
    add("arias_core(raw)", "arias_core" + hd, lambda: cumulative_trapezoid(np.array([float(x) for x in rec]) ** 2, dx=float(dt), initial=0))
    add("arias(k*core)", "arias_core" + hd, lambda: im.calc_arias_intensity(sig(rec, dt)), tol=1e-12,
        post=lambda out: [[x / Fr(K_ARIAS) for x in out[0]]])
    add("cav", "cav" + hd, lambda: im.calc_cav(sig(rec, dt)))
    add("isv", "isv" + hd, lambda: im.calc_isv(sig(rec, dt)))
    add("int_abs_acc", "int_abs_acc" + hd, lambda: im.calc_integral_of_abs_acceleration(sig(rec, dt)))
    add("int_abs_vel", "int_abs_vel" + hd, lambda: im.calc_integral_of_abs_velocity(sig(rec, dt)))
    add("unit_ke", "unit_ke" + hd, lambda: im.calc_unit_kinetic_energy(sig(rec, dt)))
    add("trapz", "trapz" + hd, lambda: np.trapezoid(np.array([float(x) for x in rec]), dx=float(dt)))

# ---- durations
DY_FR = [(Fr(1, 4), Fr(3, 4)), (Fr(1, 2), Fr(3, 4)), (Fr(1, 8), Fr(7, 8)), (Fr(1, 16), Fr(15, 16)), (Fr(1, 4), Fr(1, 2)), (Fr(0), Fr(1))]
FL_FR = [(0.05, 0.95), (0.05, 0.75), (0.1, 0.9), (0.05, 0.9)]
def near_tie(series, s, e):
    """a non-dyadic fraction times the total within 1e-9 of a sample: float and exact comparison may differ"""
    if len(series) == 0: return False
    tot = series[-1]
    return any(abs(float(c) - float(s) * float(tot)) < 1e-9 * (1 + abs(float(c))) or
               abs(float(c) - float(e) * float(tot)) < 1e-9 * (1 + abs(float(c))) for c in series)
skipped = 0
for rec in RECS:
    dt = rnd.choice(DTS)
    arr = np.array([float(x) for x in rec])
    for (s, e), dy in [(rnd.choice(DY_FR), True), (rnd.choice(FL_FR), False)]:
        cum = list(np.cumsum(arr ** 2))
        cum_a = list(cumulative_trapezoid(arr ** 2, dx=float(dt), initial=0)) if len(rec) else []
        for se in (True, False):
            tail = f"|{'T' if se else 'F'}|{q(dt)}|{q(Fr(s))}|{q(Fr(e))}|"
            if dy or not near_tie(cum, s, e):
                add("sig_dur_vals", "sig_dur_vals" + tail + qs(rec), lambda: im.calc_sig_dur_vals(arr, float(dt), start=float(s), end=float(e), se=se))
            else: skipped += 1
            # Arias variant: for dyadic fractions only power-of-two fractions commute with the float constant on exact ties
            pow2 = dy and all(Fr(x).numerator in (0, 1) for x in (s, e))
            if pow2 or not near_tie(cum_a, s, e):
                add("sig_dur", "sig_dur" + tail + qs(rec), lambda: im.calc_sig_dur(sig(rec, dt), start=float(s), end=float(e), se=se))
            else: skipped += 1
            # user supplied measures: CAV and running sum of |a|
            if len(rec):
                cavs = [Fr(float(x)) for x in im.calc_cav(sig(rec, dt))]
                if dy or not near_tie(cavs, s, e):
                    add("sig_dur(im=cav)", "sig_dur_im" + tail + qs(cavs), lambda: im.calc_sig_dur(sig(rec, dt), start=float(s), end=float(e), im=im.calc_cav, se=se))
                rs = [Fr(float(x)) for x in np.cumsum(np.abs(arr))]
                if dy or not near_tie(rs, s, e):
                    add("sig_dur(im=cumsum|a|)", "sig_dur_im" + tail + qs(rs), lambda: im.calc_sig_dur(sig(rec, dt), start=float(s), end=float(e), im=lambda a: np.cumsum(np.abs(a.values)), se=se))
    # bracketed duration: thresholds at / below / above sample magnitudes
    mags = sorted({abs(x) for x in rec}) or [Fr(1)]
    for thr in {Fr(0), rnd.choice(mags), rnd.choice(mags) - Fr(1, 16), mags[-1], mags[-1] + 1}:
        if thr < 0: continue
        for se in (True, False):
            add("brac_dur", f"brac_dur|{'T' if se else 'F'}|{q(dt)}|{q(thr)}|{qs(rec)}", lambda: im.calc_brac_dur(sig(rec, dt), float(thr), se=se))

# ---- standardised CAV: dt = 1/pps, amplitudes around the gate 0.025 g = 0.24525 m/s2
AMPS = [Fr(0), Fr(1, 8), Fr(31, 128), Fr(63, 256), Fr(1, 4), Fr(1, 2), Fr(1), Fr(3)]
def cavdp_rec(n):
    kind = rnd.random()
    if kind < 0.25:   # everything below the gate
        return [rnd.choice([-1, 1]) * rnd.choice(AMPS[:3]) for _ in range(n)]
    if kind < 0.5:    # one large sample (possibly on a window boundary)
        r = [rnd.choice([-1, 1]) * rnd.choice(AMPS[:3]) for _ in range(n)]
        r[rnd.randrange(n)] = rnd.choice([-1, 1]) * rnd.choice(AMPS[3:])
        return r
    return [rnd.choice([-1, 1]) * rnd.choice(AMPS) for _ in range(n)]
for pps in (1, 2, 4, 8):
    for n in [0, 1, pps, pps + 1, 2 * pps, 2 * pps + 1, 3 * pps, 3 * pps + 1, 3 * pps + 2, 4 * pps + 1, 5 * pps + 3, 6 * pps + 1]:
        for rep in range(3):
            rec = cavdp_rec(n) if n else []
            if n and rep == 2:  # large sample exactly on a window boundary
                rec = [Fr(1, 8)] * n
                if n > pps: rec[pps] = Fr(1)
            add("cav_dp", f"cav_dp|{pps}|{qs(rec)}", lambda: im.calc_cav_dp(sig(rec, Fr(1, pps))), tol=1e-12)

# ---- run the Lean driver
inp = "\n".join(c[1] for c in cases) + "\n"
res = subprocess.run(["lake", "env", "lean", "--run", "scratch/ImDriver.lean"], cwd=LEAN_DIR, input=inp, capture_output=True, text=True)
lines = [l for l in res.stdout.splitlines() if not l.startswith("WARNING")]
if len(lines) != len(cases):
    print("driver returned", len(lines), "lines for", len(cases), "requests"); print(res.stderr[-2000:]); sys.exit(2)

stats, bad = {}, 0
for (label, line, exp), got in zip(cases, lines):
    st = stats.setdefault(label, [0, 0, 0])   # total, errors-branch, mismatches
    st[0] += 1
    parts = got.split("|")
    ok = False
    if exp[0] == "err":
        st[1] += 1
        ok = parts[0] == "err" and parts[1] == exp[1]
    elif parts[0] == "ok":
        outs = [[pq(t) for t in p.split()] for p in parts[1:]]
        want, tol = exp[1], exp[2]
        if [len(x) for x in outs] == [len(x) for x in want]:
            ok = True
            for a, b in zip(sum(outs, []), sum(want, [])):
                if a is None or b is None: ok &= (a is None and b is None)
                elif tol == 0: ok &= (a == b)
                else: ok &= abs(float(a - b)) <= tol * max(abs(float(a)), abs(float(b))) + 1e-300
    if not ok:
        st[2] += 1; bad += 1
        if bad <= 15: print("MISMATCH", label, line, "\n   python:", exp, "\n   lean  :", got)
print(f"{'entry point':26s} cases  err-branch  mismatches")
for k, (t, e, m) in stats.items(): print(f"{k:26s} {t:5d}  {e:10d}  {m:10d}")
print("skipped near-tie (non-dyadic fraction) duration cases:", skipped)
print("TOTAL", len(cases), "mismatches", bad)
sys.exit(1 if bad else 0)
