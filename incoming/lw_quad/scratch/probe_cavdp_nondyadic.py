"""CAVdp outside the exact (dyadic) domain: dt in {0.2,0.1,0.05,0.02,0.01,0.005}; compares eqsig with the model
(pps = round(1/dt), exact rational inputs) and records the length of the float np.arange per window."""
import subprocess, random, warnings, sys
from fractions import Fraction as Fr
import numpy as np, eqsig
from eqsig import im
warnings.simplefilter("ignore")
rnd = random.Random(7)
def q(x):
    x = Fr(x); return f"{x.numerator}/{x.denominator}" if x.denominator != 1 else f"{x.numerator}"
cases = []
for dt in (0.2, 0.1, 0.05, 0.02, 0.01, 0.005):
    pps = int(1 / dt)
    assert pps == round(1 / dt)
    for secs in (2, 3, 5, 8, 13):
        for extra in (1, 2, pps // 2 + 1):
            n = secs * pps + extra
            vals = np.array([rnd.choice([-1, 1]) * rnd.choice([0.0, 0.1, 0.2, 0.24, 0.25, 0.3, 1.0]) for _ in range(n)])
            lens = []
            for i in range(int((np.arange(n) * dt)[-1])):
                start = i * pps
                lens.append(len(np.arange(start * dt, start * dt + 1, dt)) - pps)
            try:
                py = ("ok", list(im.calc_cav_dp(eqsig.AccSignal(vals, dt))))
            except Exception as e:
                py = ("err", type(e).__name__)
            cases.append((dt, pps, n, lens, py, f"cav_dp|{pps}|" + " ".join(q(Fr(float(v))) for v in vals)))
res = subprocess.run(["lake", "env", "lean", "--run", "scratch/ImDriver.lean"], cwd="/tmp/lw_quad",
                     input="\n".join(c[-1] for c in cases) + "\n", capture_output=True, text=True)
lines = [l for l in res.stdout.splitlines() if not l.startswith("WARNING")]
agree = dis = 0
for (dt, pps, n, lens, py, _), got in zip(cases, lines):
    parts = got.split("|")
    if py[0] == "ok" and parts[0] == "ok":
        lean = [float(Fr(t)) for t in parts[1].split()]
        ok = len(lean) == len(py[1]) and all(abs(a - b) <= 1e-9 * max(1, abs(a)) for a, b in zip(lean, py[1]))
    else:
        ok = (py[0] == parts[0] == "err" and py[1] == parts[1])
    extra_panels = sum(1 for l in lens if l != 0)
    if ok: agree += 1
    else:
        dis += 1
        print(f"dt={dt} n={n}: differs; windows with arange length != pps: {extra_panels}/{len(lens)} (offsets {sorted(set(lens))}); python={py[0]} lean={parts[0]}")
    if ok and extra_panels: print(f"dt={dt} n={n}: agrees although {extra_panels} windows have a longer arange")
print("agree", agree, "differ", dis)
