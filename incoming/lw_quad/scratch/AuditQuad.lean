import EqsigVerif.Audit
import EqsigVerif.Props.C08
#audit EqsigVerif.Props.C08
