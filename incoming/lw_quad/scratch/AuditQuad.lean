import EqsigVerif.Audit
import EqsigVerif.Props.C08
import EqsigVerif.Props.C09
import EqsigVerif.Props.C10
#audit EqsigVerif.Props.C08
#audit EqsigVerif.Props.C09
#audit EqsigVerif.Props.C10
