import EqsigVerif.Audit
import EqsigVerif.Props.C13PowerLaw
#audit EqsigVerif.Props.C13
