import EqsigVerif.Model.Displacements
import EqsigVerif.Model.Im
import EqsigVerif.Lemmas.Np
import EqsigVerif.Lemmas.Im.Velo
import EqsigVerif.Lemmas.Im.Series
import EqsigVerif.Lemmas.Im.CavDp
import EqsigVerif.Lemmas.Im.AriasReal
/-!
# C09 — cumulative intensity measures: definition, monotonicity and scaling laws

Series: `arias k` (`k = π/(2·9.81)` is a parameter; `ariasCore = arias` without the constant), `cav`, `isv`,
`intAbsAcc`, `intAbsVel`, `unitKineticEnergy` of `Model/Im.lean`.  Stated for an arbitrary linearly
ordered field (executed at `ℚ`, valid at `ℝ` where `k = π/(2·9.81)` lives).  `Pairwise (· ≤ ·)` is
"non-decreasing".  CAVdp (C09.e) is in the second half of the file.
-/
set_option linter.unusedSectionVars false
set_option linter.unusedVariables false
namespace EqsigVerif.Props.C09
open EqsigVerif.Np EqsigVerif.Wire EqsigVerif.Model.Displacements EqsigVerif.Model.Im EqsigVerif.Lemmas.Im

variable {α : Type} [Field α] [LinearOrder α] [IsStrictOrderedRing α]

/-! ## C09.a length and monotonicity -/

/-- C09.a: every series has the record's length -/
theorem series_length (k dt : α) (a : List α) :
    (arias k dt a).length = a.length ∧ (ariasCore dt a).length = a.length ∧ (cav dt a).length = a.length ∧
    (isv dt a).length = a.length ∧ (intAbsAcc dt a).length = a.length ∧ (intAbsVel dt a).length = a.length := by
  simp

example : (cav (1/2 : ℚ) [1, -2, 3]).length = 3 ∧ (isv (1/2 : ℚ) [1, -2, 3]).length = 3 := by decide +kernel

/-- C09.a: every series is non-decreasing (`dt ≥ 0`; Arias constant `k ≥ 0`) -/
theorem series_monotone (k dt : α) (hk : 0 ≤ k) (hdt : 0 ≤ dt) (a : List α) :
    (arias k dt a).Pairwise (· ≤ ·) ∧ (ariasCore dt a).Pairwise (· ≤ ·) ∧ (cav dt a).Pairwise (· ≤ ·) ∧
    (isv dt a).Pairwise (· ≤ ·) ∧ (intAbsAcc dt a).Pairwise (· ≤ ·) ∧ (intAbsVel dt a).Pairwise (· ≤ ·) :=
  ⟨arias_pairwise k dt hk hdt a, ariasCore_pairwise dt hdt a, cav_pairwise dt hdt a, isv_pairwise dt hdt a,
   intAbsAcc_pairwise dt hdt a, intAbsVel_pairwise dt hdt a⟩

example : cav (1/2 : ℚ) [1, -2, 3] = [0, 3/4, 2] ∧ isv (1/2 : ℚ) [1, -2, 3] = [0, 1/64, 1/32] ∧
    intAbsVel (1/2 : ℚ) [1, -2, 3] = [0, 1/8, 1/8] := by decide +kernel

/-- C09.a for `calc_unit_kinetic_energy`: on a non-empty record it succeeds with a non-decreasing series of
the record's length, namely `cumsum |Δ(½·v·|v|)|` with the first difference taken from `0`. -/
theorem unit_kinetic_energy_series (dt : α) (a : List α) (h : a ≠ []) :
    ∃ s, unitKineticEnergy dt a = .ok s ∧
      s = cumsum (absL (diffFrom 0 (kinEnergy (velocity dt a)))) ∧
      s.length = a.length ∧ s.Pairwise (· ≤ ·) :=
  unitKineticEnergy_ok dt a h

example : unitKineticEnergy (1/2 : ℚ) [1, -2, 3, -8] = .ok [0, 1/32, 1/16, 27/32] := by decide +kernel

/-! ## C09.b final values -/

/-- the last element of `cumulative_trapezoid(y, dx, initial=0)` is the closed trapezoid sum `trapz` -/
theorem cumtrapz_last_eq_trapz (dx : α) (y : List α) (h : y ≠ []) :
    (cumtrapz dx y).getLast? = some (trapz dx y) := cumtrapz_getLast dx y h

example : (cumtrapz (1/2 : ℚ) [1, -2, 3, 5]).getLast? = some (trapz (1/2) [1, -2, 3, 5]) ∧
    trapz (1/2 : ℚ) [1, -2, 3, 5] = 2 := by decide +kernel

/-- C09.b: final values equal the defining quadratures: Arias `k·trapz(a²)`, CAV `trapz(|a|)`,
ISV `trapz(v²)`, `Σ|a|·dt`, `Σ|v|·dt` -/
theorem final_values (k dt : α) (a : List α) (h : a ≠ []) :
    (arias k dt a).getLast? = some (k * trapz dt (Np.sq a)) ∧
    (cav dt a).getLast? = some (trapz dt (absL a)) ∧
    (isv dt a).getLast? = some (trapz dt (Np.sq (velocity dt a))) ∧
    (intAbsAcc dt a).getLast? = some (Np.sum (absL a) * dt) ∧
    (intAbsVel dt a).getLast? = some (Np.sum (absL (velocity dt a)) * dt) := by
  have hv : velocity dt a ≠ [] := by
    intro hv; have := length_velocity dt a; rw [hv] at this; exact h (List.eq_nil_of_length_eq_zero this.symm)
  refine ⟨?_, ?_, ?_, ?_, ?_⟩
  · simp [arias, ariasCore, List.getLast?_map, cumtrapz_getLast dt (Np.sq a) (by simpa [Np.sq] using h)]
  · exact cumtrapz_getLast dt _ (by simpa [absL] using h)
  · exact cumtrapz_getLast dt _ (by simpa [Np.sq] using hv)
  · rw [intAbsAcc, cumsum_getLast _ (by simpa [absL] using h), sum_map_mul]
  · rw [intAbsVel, cumsum_getLast _ (by simpa [absL] using hv), sum_map_mul]

example : (cav (1/2 : ℚ) [1, -2, 3]).getLast? = some 2 ∧ trapz (1/2 : ℚ) (absL [1, -2, 3]) = 2 ∧
    (intAbsAcc (1/2 : ℚ) [1, -2, 3]).getLast? = some 3 := by decide +kernel

/-- C09.b for unit kinetic energy: the final value is `Σ |Δ(½·v·|v|)|` (first difference from `0`) -/
theorem final_value_unit_kinetic_energy (dt : α) (a : List α) (h : a ≠ []) :
    ∃ s, unitKineticEnergy dt a = .ok s ∧
      s.getLast? = some (Np.sum (absL (diffFrom 0 (kinEnergy (velocity dt a))))) := by
  obtain ⟨s, hs, rfl, hl, _⟩ := unitKineticEnergy_ok dt a h
  refine ⟨_, hs, cumsum_getLast _ ?_⟩
  intro hnil
  rw [hnil] at hl
  exact h (List.eq_nil_of_length_eq_zero hl.symm)

example : Np.sum (absL (diffFrom 0 (kinEnergy (velocity (1/2 : ℚ) [1, -2, 3, -8])))) = 27/32 := by decide +kernel

/-! ## C09.c sign invariance and scaling -/

/-- C09.c: scaling the record by `c` scales the energy-type series by `c²` and the CAV-type series by `|c|` -/
theorem scaling (k dt c : α) (a : List α) :
    arias k dt (a.map (c * ·)) = (arias k dt a).map (c * c * ·) ∧
    ariasCore dt (a.map (c * ·)) = (ariasCore dt a).map (c * c * ·) ∧
    isv dt (a.map (c * ·)) = (isv dt a).map (c * c * ·) ∧
    unitKineticEnergy dt (a.map (c * ·)) = (unitKineticEnergy dt a).map (List.map (c * c * ·)) ∧
    cav dt (a.map (c * ·)) = (cav dt a).map (|c| * ·) ∧
    intAbsAcc dt (a.map (c * ·)) = (intAbsAcc dt a).map (|c| * ·) ∧
    intAbsVel dt (a.map (c * ·)) = (intAbsVel dt a).map (|c| * ·) :=
  ⟨arias_smul k dt c a, ariasCore_smul dt c a, isv_smul dt c a, unitKineticEnergy_smul dt c a,
   cav_smul dt c a, intAbsAcc_smul dt c a, intAbsVel_smul dt c a⟩

example : isv (1/2 : ℚ) ([1, -2, 3].map ((-3 : ℚ) * ·)) = (isv (1/2 : ℚ) [1, -2, 3]).map ((9 : ℚ) * ·) ∧
    cav (1/2 : ℚ) ([1, -2, 3].map ((-3 : ℚ) * ·)) = [0, 9/4, 6] := by decide +kernel

/-- C09.c: every series is invariant under `a ↦ −a` -/
theorem neg_invariant (k dt : α) (a : List α) :
    arias k dt (a.map (fun x => -x)) = arias k dt a ∧
    ariasCore dt (a.map (fun x => -x)) = ariasCore dt a ∧
    isv dt (a.map (fun x => -x)) = isv dt a ∧
    unitKineticEnergy dt (a.map (fun x => -x)) = unitKineticEnergy dt a ∧
    cav dt (a.map (fun x => -x)) = cav dt a ∧
    intAbsAcc dt (a.map (fun x => -x)) = intAbsAcc dt a ∧
    intAbsVel dt (a.map (fun x => -x)) = intAbsVel dt a := by
  have e : (fun y : α => -y) = (fun y => -1 * y) := by funext y; ring
  obtain ⟨h1, h2, h3, h4, h5, h6, h7⟩ := scaling k dt (-1) a
  rw [e, h1, h2, h3, h4, h5, h6, h7]
  have e1 : (-1 : α) * -1 = 1 := by ring
  simp only [e1, abs_neg, abs_one, one_mul, List.map_id']
  refine ⟨trivial, trivial, trivial, ?_, trivial, trivial, trivial⟩
  cases unitKineticEnergy dt a <;> simp [Except.map]

example : unitKineticEnergy (1/2 : ℚ) ([1, -2, 3, -8].map (fun x => -x)) = unitKineticEnergy (1/2 : ℚ) [1, -2, 3, -8] := by
  decide +kernel

/-! ## C09.d zero padding -/

/-- C09.d: if the record ends at zero, each acceleration-based series of `a ++ replicate m 0` is the old
series followed by `m` copies of its final value `f`.  (For the rectangle sum `intAbsAcc` the hypothesis
is not needed: see `zero_padding_int_abs_acc`.) -/
theorem zero_padding (k dt : α) (a : List α) (m : Nat) (h : a.getLast? = some 0) :
    (∃ f, (arias k dt a).getLast? = some f ∧
        arias k dt (a ++ List.replicate m 0) = arias k dt a ++ List.replicate m f) ∧
    (∃ f, (cav dt a).getLast? = some f ∧
        cav dt (a ++ List.replicate m 0) = cav dt a ++ List.replicate m f) ∧
    (∃ f, (intAbsAcc dt a).getLast? = some f ∧
        intAbsAcc dt (a ++ List.replicate m 0) = intAbsAcc dt a ++ List.replicate m f) := by
  refine ⟨arias_pad k dt a m h, cav_pad dt a m h, ?_⟩
  have hne : a ≠ [] := by rintro rfl; simp at h
  have hne' : intAbsAcc dt a ≠ [] := by
    intro h'; have := length_intAbsAcc dt a; rw [h'] at this; exact hne (List.eq_nil_of_length_eq_zero this.symm)
  refine ⟨(intAbsAcc dt a).getLast hne', List.getLast?_eq_some_getLast hne', ?_⟩
  rw [intAbsAcc_pad, List.getLast?_eq_some_getLast hne']
  rfl

example : ([1, -2, 0] : List ℚ).getLast? = some 0 ∧
    cav (1/2 : ℚ) ([1, -2, 0] ++ List.replicate 2 0) = cav (1/2 : ℚ) [1, -2, 0] ++ List.replicate 2 (5/4) := by
  decide +kernel

/-- C09.d for the rectangle sum of `|a|`: holds for every record (no condition on the last sample) -/
theorem zero_padding_int_abs_acc (dt : α) (a : List α) (m : Nat) :
    intAbsAcc dt (a ++ List.replicate m 0) =
      intAbsAcc dt a ++ List.replicate m ((intAbsAcc dt a).getLast?.getD 0) :=
  intAbsAcc_pad dt a m

example : intAbsAcc (1/2 : ℚ) ([1, -2] ++ List.replicate 2 0) = [1/2, 3/2, 3/2, 3/2] := by decide +kernel

/-- the hypothesis `a[-1] = 0` of C09.d is needed for the trapezoid-based series: the panel from the last
sample to the first appended zero adds `dt·|a[-1]|/2`. -/
example : cav (1/2 : ℚ) ([1, -2] ++ List.replicate 2 0) = [0, 3/4, 5/4, 5/4] ∧ cav (1/2 : ℚ) [1, -2] = [0, 3/4] := by
  decide +kernel

/-- C09.d also holds for unit kinetic energy (velocity is constant once the record has ended at zero) -/
theorem zero_padding_unit_kinetic_energy (dt : α) (a : List α) (m : Nat) (h : a.getLast? = some 0) :
    ∃ s f, unitKineticEnergy dt a = .ok s ∧ s.getLast? = some f ∧
      unitKineticEnergy dt (a ++ List.replicate m 0) = .ok (s ++ List.replicate m f) :=
  unitKineticEnergy_pad dt a m h

example : unitKineticEnergy (1/2 : ℚ) ([1, -2, 3, -8, 0] ++ List.replicate 2 0) =
    (unitKineticEnergy (1/2 : ℚ) [1, -2, 3, -8, 0]).map (· ++ List.replicate 2 (171/32)) := by decide +kernel

/-! ## the Arias series with its real constant `π/(2·9.81)` -/

/-- C09.a/b at `ℝ` for `calc_arias_intensity = π/(2·9.81) · cumulative_trapezoid(a², dt)`: length,
monotonicity (`dt ≥ 0`) and final value `π/(2·9.81)·trapz(a²)` -/
theorem arias_real (dt : ℝ) (hdt : 0 ≤ dt) (a : List ℝ) (h : a ≠ []) :
    (arias kArias dt a).length = a.length ∧ (arias kArias dt a).Pairwise (· ≤ ·) ∧
    (arias kArias dt a).getLast? = some (Real.pi / (2 * 9.81) * trapz dt (Np.sq a)) :=
  ⟨(series_length kArias dt a).1, (series_monotone kArias dt kArias_pos.le hdt a).1,
   (final_values kArias dt a h).1⟩

example : (0 : ℝ) ≤ 1/2 ∧ ([1, -2, 3] : List ℝ) ≠ [] := ⟨by norm_num, by simp⟩

/-! ## C09.e standardised CAV (`calc_cav_dp`)

Domain: `dt = 1/pps` with `pps ≥ 1` points per second (`points_per_sec = int(1/dt) = pps`) and at least one
full second of record (`pps + 1 ≤ n`; the property's "at least two seconds" implies it).  On this domain
`np.arange(start·dt, start·dt + 1, dt)` has exactly `pps` entries in exact arithmetic, so each window
integrates the first `pps` of its `pps + 1` samples (`pps − 1` panels — the property's "to within one trapezoid
panel per window"), while the gate looks at all `pps + 1` samples.

* `totalSeconds n pps = int((n−1)·dt)`; `g = a / 9.81`;
* `winAbsAt g pps s` = `|g[s : s+pps+1]|`; `winValAt g pps s` = `trapz dt (first pps samples of the window)` if
  some window sample is `≥ 0.025` (`gate`), else `0`;
* `winVals g pps 0 T` = the list of `winValAt g pps (w·pps)`, `w < T`; `cavDpSeries a pps` = its `cumsum`
  (the table placed at the integer seconds `0 … T−1`). -/

/-- C09.e closed form ("equals the sum of the windowed `|a|` integrals over qualifying windows"):
the model output is `np.interp(time, arange(T), cumsum(window values))`. -/
theorem cavdp_closed_form (a : List ℚ) (pps : Nat) (hp : 0 < pps) (hdur : pps + 1 ≤ a.length) :
    cavDp a pps = .ok ((List.range a.length).map (fun (i : Nat) =>
      interpUnit (cumsum (winVals (a.map (· / gAcc)) pps 0 (totalSeconds a.length pps)))
        ((i : ℚ) * (1 / (pps : ℚ))))) :=
  cavDp_eq a pps hp (totalSeconds_pos a.length pps hp hdur)

example : cavDp [1/8, 1/8, 1, 1/8, 1/8] 2 = .ok [25/3924, 325/15696, 275/7848, 275/7848, 275/7848] ∧
    winVals ([1/8, 1/8, 1, 1/8, 1/8].map (· / gAcc)) 2 0 2 = [25/3924, 225/7848] := by decide +kernel

/-- C09.a / C09.e for CAVdp: the series has the record's length, is non-negative and non-decreasing -/
theorem cavdp_length_nonneg_monotone (a : List ℚ) (pps : Nat) (hp : 0 < pps) (hdur : pps + 1 ≤ a.length) :
    ∃ s, cavDp a pps = .ok s ∧ s.length = a.length ∧ (∀ y ∈ s, 0 ≤ y) ∧ s.Pairwise (· ≤ ·) := by
  have hT := totalSeconds_pos a.length pps hp hdur
  refine ⟨cavDpOut a pps, cavDp_eq a pps hp hT, by simp [cavDpOut], cavDpOut_nonneg a pps hT,
    cavDpOut_pairwise a pps hT⟩

example : (2 : Nat) + 1 ≤ ([1/8, 1/8, 1, 1/8, 1/8] : List ℚ).length := by decide

/-- C09.e: the final value is the sum of the window values, and it is at most `CAV_final / 9.81` -/
theorem cavdp_final_le_cav (a : List ℚ) (pps : Nat) (hp : 0 < pps) (hdur : pps + 1 ≤ a.length) :
    ∃ s f c, cavDp a pps = .ok s ∧ s.getLast? = some f ∧
      f = Np.sum (winVals (a.map (· / gAcc)) pps 0 (totalSeconds a.length pps)) ∧
      (cav (1 / (pps : ℚ)) a).getLast? = some c ∧ f ≤ c / gAcc := by
  have hT := totalSeconds_pos a.length pps hp hdur
  have hne : a ≠ [] := by rintro rfl; simp at hdur
  refine ⟨cavDpOut a pps, _, trapz (1 / (pps : ℚ)) (absL a), cavDp_eq a pps hp hT,
    cavDpOut_getLast a pps hp hT, rfl, ?_, sum_winVals_le_cav a pps hp⟩
  exact cumtrapz_getLast _ _ (by simpa [absL] using hne)

example : (cavDp [1/8, 1/8, 1, 1/8, 1/8] 2).toOption.bind List.getLast? = some (275/7848) ∧
    (cav (1/2 : ℚ) [1/8, 1/8, 1, 1/8, 1/8]).getLast? = some (11/16) ∧ (275/7848 : ℚ) ≤ (11/16) / gAcc := by
  decide +kernel

/-- C09.e: if no one-second window contains a sample reaching `0.025 g`, CAVdp is identically zero -/
theorem cavdp_zero_below_gate (a : List ℚ) (pps : Nat) (hp : 0 < pps) (hdur : pps + 1 ≤ a.length)
    (h : ∀ w, w < totalSeconds a.length pps →
      ∀ x ∈ winAbsAt (a.map (· / gAcc)) pps (w * pps), x < gate) :
    cavDp a pps = .ok (List.replicate a.length 0) := by
  have hT := totalSeconds_pos a.length pps hp hdur
  rw [cavDp_eq a pps hp hT]
  exact congrArg _ (cavDpOut_zero a pps hT h)

/-- C09.e corollary: every sample below `0.025 g` (`|x|/9.81 < 0.025`) ⇒ CAVdp ≡ 0 -/
theorem cavdp_zero_of_all_below_gate (a : List ℚ) (pps : Nat) (hp : 0 < pps) (hdur : pps + 1 ≤ a.length)
    (h : ∀ x ∈ a, |x| / gAcc < gate) : cavDp a pps = .ok (List.replicate a.length 0) := by
  apply cavdp_zero_below_gate a pps hp hdur
  intro w _ x hx
  obtain ⟨y, hy, rfl⟩ := mem_winAbsAt _ _ _ _ hx
  obtain ⟨z, hz, rfl⟩ := List.mem_map.mp hy
  have : |z / gAcc| = |z| / gAcc := by rw [abs_div, abs_of_pos (show (0 : ℚ) < gAcc by norm_num [gAcc])]
  rw [this]; exact h z hz

example : cavDp [1/8, -1/8, 1/8, 31/128, -1/8] 2 = .ok (List.replicate 5 0) ∧
    (∀ x ∈ ([1/8, -1/8, 1/8, 31/128, -1/8] : List ℚ), |x| / gAcc < gate) := by
  refine ⟨by decide +kernel, ?_⟩
  intro x hx
  simp only [List.mem_cons, List.not_mem_nil, or_false] at hx
  rcases hx with rfl | rfl | rfl | rfl | rfl <;> norm_num [gAcc, gate, abs_of_neg, abs_of_pos]

/-- C09.e error branches of the model: `pps = 0` (`1/dt` undefined), empty record (`time[-1]`), and less than
one full second (`np.interp` with an empty table) -/
theorem cavdp_errors (a : List ℚ) (pps : Nat) :
    (pps = 0 → cavDp a pps = .error .ZeroDivisionError) ∧
    (0 < pps → a = [] → cavDp a pps = .error .IndexError) ∧
    (0 < pps → a ≠ [] → totalSeconds a.length pps = 0 → cavDp a pps = .error .ValueError) := by
  refine ⟨?_, ?_, ?_⟩
  · intro h; simp [cavDp, h]
  · intro h1 h2; subst h2; simp [cavDp, Nat.pos_iff_ne_zero.mp h1]
  · intro h1 h2 h3; exact cavDp_short a pps h1 h2 h3

example : cavDp [1/8, 1] 2 = .error .ValueError ∧ cavDp [] 2 = .error .IndexError ∧
    cavDp [1, 2, 3] 0 = .error .ZeroDivisionError := by decide +kernel

end EqsigVerif.Props.C09
