import EqsigVerif.Model.PowerLaw
import EqsigVerif.Lemmas.Np
import EqsigVerif.Lemmas.PowerLaw
/-!
# C13.d — power-law equivalent-cycle measures (over `ℝ`, `x ** y = Real.rpow x y`)

The model functions of `Model/PowerLaw.lean` instantiated at `ℝ` (definitions in `Lemmas/PowerLaw.lean`, all by `rfl`,
see `powerlaw_defs`):
* `rpowR x y = x ^ y`;
* `nCycR n idx pk a_ref b = nCycCore rpowR (1/2) n idx pk a_ref b` — `calc_n_cyc_array_w_power_law` given the
  switched-peak indices `idx` and the peak magnitudes `pk` (after the cut-off replacement; `powerlaw_cutoff_zero`);
* `cycAmpR csr n_cyc b = cycAmpCore rpowR csr n_cyc b` — `calc_cyc_amp_array_w_power_law` on the peak-only series;
* `cycAmpCombinedR = cycAmpCombinedCore rpowR`; `percR pk a_ref b` = the increments `0.5/(1·(a_ref/pk)^(1/b))`.
Hypotheses as in the property: `b > 0`, `a_ref > 0`, `n_cyc > 0`, peak magnitudes `> 0`.
-/
set_option linter.unusedSectionVars false
set_option linter.unusedVariables false
namespace EqsigVerif.Props.C13
open EqsigVerif.Np EqsigVerif.Model.PowerLaw EqsigVerif.Lemmas.PowerLaw

/-- the `ℝ` instances are the model's definitions with `pow := fun x y => x ^ y`, `half := 1/2` -/
theorem powerlaw_defs (n : Nat) (idx : List Nat) (pk csr csr' : List ℝ) (aRef b nCyc : ℝ) :
    rpowR = (fun x y : ℝ => x ^ y) ∧
    nCycR n idx pk aRef b = nCycCore (fun x y : ℝ => x ^ y) (1 / 2) n idx pk aRef b ∧
    cycAmpR csr nCyc b = cycAmpCore (fun x y : ℝ => x ^ y) csr nCyc b ∧
    cycAmpCombinedR csr csr' nCyc b = cycAmpCombinedCore (fun x y : ℝ => x ^ y) csr csr' nCyc b :=
  ⟨rfl, rfl, rfl, rfl⟩

example : rpowR 4 (1 / 2) = 2 := by
  unfold rpowR
  rw [show (4 : ℝ) = 2 ^ (2 : ℝ) by norm_num, ← Real.rpow_mul (by norm_num)]
  norm_num

/-! ## (1) lengths -/

/-- C13.d: both series have the record's length (`n = len(values)`; `csr` is the peak-only series of the record) -/
theorem powerlaw_lengths (n : Nat) (idx : List Nat) (pk csr : List ℝ) (aRef b nCyc : ℝ) :
    (nCycR n idx pk aRef b).length = n ∧ (cycAmpR csr nCyc b).length = csr.length := by
  constructor
  · simp [nCycR_eq]
  · simp [cycAmpR_eq]

example : (nCycR 5 [1, 3] [1, 3] 2 1).length = 5 ∧ (cycAmpR [0, 1, 0, 3] 1 1).length = 4 :=
  powerlaw_lengths 5 [1, 3] [1, 3] [0, 1, 0, 3] 2 1 1

/-- concrete values (`b = 1`): peaks `1` at index 1 and `3` at index 3 of a 5-sample record, `a_ref = 2` -/
example : nCycR 5 [1, 3] [1, 3] 2 1 = [0, 1/4, 1/4, 1, 1] ∧ cycAmpR [0, 1, 0, 3] 1 1 = [0, 1/2, 1/2, 2] := by
  constructor
  · simp [nCycR, nCycCore, rpowR, cumsum, cumsumFrom, prevKnot, List.range_succ]
    norm_num
  · simp [cycAmpR, cycAmpCore, rpowR, cumsum, cumsumFrom, absv_real]
    norm_num

/-! ## (2) monotonicity -/

/-- C13.d: the cycle-count series is non-decreasing (cumsum of non-negative increments read through
`interp1d(kind='previous')`).  No ordering hypothesis on `idx` is needed for this clause: the model's scan stops at
the first knot beyond the query, so a later query never sees fewer knots.  (For switched peaks C12 provides
`idx.Pairwise (· < ·)`, under which the scan is SciPy's "last knot with `x ≤ i`".) -/
theorem powerlaw_ncyc_monotone (n : Nat) (idx : List Nat) (pk : List ℝ) (aRef b : ℝ)
    (ha : 0 < aRef) (hpk : ∀ p ∈ pk, 0 < p) : (nCycR n idx pk aRef b).Pairwise (· ≤ ·) :=
  nCycR_pairwise n idx pk aRef b ha hpk

/-- C13.d: the equivalent-amplitude series is non-decreasing (cumsum of non-negative terms, `x ↦ x^b` monotone) -/
theorem powerlaw_cycamp_monotone (csr : List ℝ) (nCyc b : ℝ) (hb : 0 < b) (hN : 0 < nCyc) :
    (cycAmpR csr nCyc b).Pairwise (· ≤ ·) :=
  cycAmpR_pairwise csr nCyc b hb hN

example : (nCycR 5 [1, 3] [1, 3] 2 1).Pairwise (· ≤ ·) ∧ (cycAmpR [0, 1, 0, 3] 1 1).Pairwise (· ≤ ·) :=
  ⟨powerlaw_ncyc_monotone 5 [1, 3] [1, 3] 2 1 (by norm_num)
      (by intro p hp; simp at hp; rcases hp with rfl | rfl <;> norm_num),
   powerlaw_cycamp_monotone [0, 1, 0, 3] 1 1 (by norm_num) (by norm_num)⟩

/-! ## (3) mutual inverse (`cut_off = 0`) -/

/-- with `cut_off = 0` the cut-off replacement `where(pk < cut_off·max|v|, 1e-14, pk)` does nothing -/
theorem powerlaw_cutoff_zero (tiny m : ℝ) (pk : List ℝ) (hpk : ∀ p ∈ pk, 0 ≤ p) : cutOff tiny 0 m pk = pk :=
  cutOff_zero tiny m pk hpk

example : cutOff (1e-14 : ℝ) 0 3 [1, 3] = [1, 3] :=
  powerlaw_cutoff_zero _ _ _ (by intro p hp; simp at hp; rcases hp with rfl | rfl <;> norm_num)

/-- zero entries of the peak-only series contribute nothing: `0^(1/b) = 0` for `b > 0` -/
theorem powerlaw_zero_term (b : ℝ) (hb : 0 < b) : rpowR 0 (1 / b) = 0 := zero_rpow_inv b hb

example : rpowR 0 (1 / (1/2 : ℝ)) = 0 := powerlaw_zero_term _ (by norm_num)

/-- C13.d: the final value of the cycle-count series is `N = Σᵢ 0.5/(a_ref/pkᵢ)^(1/b)` (peak indices inside the
record, one magnitude per index) and `N > 0` when there is a peak -/
theorem powerlaw_ncyc_final (n : Nat) (idx : List Nat) (pk : List ℝ) (aRef b : ℝ) (hn : 0 < n)
    (hlen : idx.length = pk.length) (hidx : ∀ i ∈ idx, i < n) (ha : 0 < aRef) (hpk : ∀ p ∈ pk, 0 < p)
    (hne : pk ≠ []) :
    (nCycR n idx pk aRef b).getLast? = some (percR pk aRef b).sum ∧ 0 < (percR pk aRef b).sum :=
  ⟨nCycR_getLast n idx pk aRef b hn hlen hidx, percR_sum_pos pk aRef b ha hpk hne⟩

/-- C13.d mutual inverse at list level: `pk` = the peak magnitudes in order, `csr` = any series whose non-zero
entries are exactly `pk` in order (the peak-only series); with `N` = the final cycle count for `a_ref`, the final
equivalent amplitude for `N` cycles is `a_ref`. -/
theorem powerlaw_mutual_inverse (pk csr : List ℝ) (aRef b : ℝ) (hb : 0 < b) (ha : 0 < aRef)
    (hpk : ∀ p ∈ pk, 0 < p) (hne : pk ≠ []) (hcsr : csr.filter (fun x => decide (x ≠ 0)) = pk) :
    (cycAmpR csr (percR pk aRef b).sum b).getLast? = some aRef := by
  have hc : csr ≠ [] := by rintro rfl; exact hne (by simpa using hcsr.symm)
  rw [cycAmpR_getLast csr _ b hc, sum_ampTerm_inverse pk csr aRef b hb ha hpk hne hcsr,
    rpow_inv_rpow aRef b ha.le hb]

example : (cycAmpR [0, 1, 0, 3] (percR [1, 3] 2 1).sum 1).getLast? = some 2 :=
  powerlaw_mutual_inverse [1, 3] [0, 1, 0, 3] 2 1 (by norm_num) (by norm_num)
    (by intro p hp; simp at hp; rcases hp with rfl | rfl <;> norm_num) (by simp) (by simp)

/-- C13.d mutual inverse for the model's own peak-only series `np.put(zeros, idx, |values[idx]|)`:
strictly ascending in-range peak indices (C12), non-zero peak values, `cut_off = 0`:
`amp(v, N := n_eq(v, a_ref)[-1], b)[-1] = a_ref`. -/
theorem powerlaw_mutual_inverse_model (vals : List ℝ) (idx : List Nat) (aRef b : ℝ) (hb : 0 < b) (ha : 0 < aRef)
    (hasc : idx.Pairwise (· < ·)) (hr : ∀ i ∈ idx, i < vals.length) (hnz : ∀ i ∈ idx, vals.getD i 0 ≠ 0)
    (hne : idx ≠ []) :
    ∃ N, (nCycR vals.length idx (idx.map (fun i => absv (vals.getD i 0))) aRef b).getLast? = some N ∧ 0 < N ∧
      (cycAmpR (peakOnlyAbs vals idx) N b).getLast? = some aRef := by
  set pk := idx.map (fun i => absv (vals.getD i 0)) with hpkdef
  have hpk : ∀ p ∈ pk, 0 < p := by
    intro p hp
    obtain ⟨i, hi, rfl⟩ := List.mem_map.mp hp
    rw [absv_real]; exact abs_pos.mpr (hnz i hi)
  have hpne : pk ≠ [] := by simpa [hpkdef] using hne
  have hn : 0 < vals.length := by
    cases idx with
    | nil => exact absurd rfl hne
    | cons i _ => exact lt_of_le_of_lt (Nat.zero_le _) (hr i (by simp))
  obtain ⟨h1, h2⟩ := powerlaw_ncyc_final vals.length idx pk aRef b hn (by simp [hpkdef]) hr ha hpk hpne
  refine ⟨_, h1, h2, ?_⟩
  have hcne : peakOnlyAbs vals idx ≠ [] := by
    intro h0; have := peakOnlyAbs_length vals idx; rw [h0] at this; simp at this; omega
  have hnd : idx.Nodup := hasc.imp (fun h => ne_of_lt h)
  rw [cycAmpR_getLast _ _ b hcne,
    sum_map_peakOnlyAbs _ (ampTerm_zero _ b hb) vals idx hnd hr, ← hpkdef,
    sum_ampTerm_pk pk aRef b ha hpk hpne, rpow_inv_rpow aRef b ha.le hb]

example : ∃ N, (nCycR 5 [1, 3] ([1, 3].map (fun i => absv (([0, 1, 0, -3, 0] : List ℝ).getD i 0))) 2 1).getLast? = some N ∧
    0 < N ∧ (cycAmpR (peakOnlyAbs [0, 1, 0, -3, 0] [1, 3]) N 1).getLast? = some 2 :=
  powerlaw_mutual_inverse_model [0, 1, 0, -3, 0] [1, 3] 2 1 (by norm_num) (by norm_num) (by simp)
    (by intro i hi; simp at hi; rcases hi with rfl | rfl <;> simp)
    (by intro i hi; simp at hi; rcases hi with rfl | rfl <;> simp) (by simp)

/-! ## (4) amplitude scales linearly -/

/-- C13.d: `amp(α•v) = α•amp(v)` for `α ≥ 0` (the peak-only series of `α•v` is `α•csr`: switched-peak indices are
scale invariant) -/
theorem powerlaw_amp_scales (csr : List ℝ) (nCyc b α : ℝ) (hb : 0 < b) (hN : 0 < nCyc) (hα : 0 < α) :
    cycAmpR (csr.map (α * ·)) nCyc b = (cycAmpR csr nCyc b).map (α * ·) :=
  cycAmpR_smul csr nCyc b α hb hN hα.le

example : cycAmpR (([0, 1, 0, 3] : List ℝ).map ((5 : ℝ) * ·)) 1 (1/2) = (cycAmpR [0, 1, 0, 3] 1 (1/2)).map ((5 : ℝ) * ·) :=
  powerlaw_amp_scales _ _ _ _ (by norm_num) (by norm_num) (by norm_num)

/-! ## (5) cycle count invariant under joint scaling -/

/-- C13.d: `n_eq(α•v, α·a_ref) = n_eq(v, a_ref)` (`α ≠ 0`; peak magnitudes scale by `α`, indices unchanged) -/
theorem powerlaw_ncyc_scale_invariant (n : Nat) (idx : List Nat) (pk : List ℝ) (aRef b α : ℝ) (hα : 0 < α) :
    nCycR n idx (pk.map (α * ·)) (α * aRef) b = nCycR n idx pk aRef b :=
  nCycR_scale n idx pk aRef b α hα.ne'

example : nCycR 5 [1, 3] (([1, 3] : List ℝ).map ((5 : ℝ) * ·)) (5 * 2) (1/2) = nCycR 5 [1, 3] [1, 3] 2 (1/2) :=
  powerlaw_ncyc_scale_invariant _ _ _ _ _ _ (by norm_num)

/-! ## (6) two identical components -/

/-- C13.d: the combined measure of two identical components is `2^b` times the single-component measure -/
theorem powerlaw_combined_identical (csr : List ℝ) (nCyc b : ℝ) (hN : 0 < nCyc) :
    cycAmpCombinedR csr csr nCyc b = (cycAmpR csr nCyc b).map (rpowR 2 b * ·) :=
  cycAmpCombinedR_self csr nCyc b hN

example : cycAmpCombinedR [0, 1, 0, 3] [0, 1, 0, 3] 1 1 = (cycAmpR [0, 1, 0, 3] 1 1).map ((2 : ℝ) * ·) := by
  have h := powerlaw_combined_identical [0, 1, 0, 3] 1 1 (by norm_num)
  have e : rpowR 2 1 = 2 := by unfold rpowR; exact Real.rpow_one 2
  rw [e] at h; exact h

/-- C13.d: the geometric-mean measure `sqrt(s₀·s₁)` of two identical components is the single-component measure -/
theorem powerlaw_gm_identical (csr : List ℝ) (nCyc b : ℝ) (hN : 0 < nCyc) :
    List.zipWith (fun x y => Real.sqrt (x * y)) (cycAmpR csr nCyc b) (cycAmpR csr nCyc b) = cycAmpR csr nCyc b :=
  gm_self _ (cycAmpR_nonneg csr nCyc b hN)

example : List.zipWith (fun x y => Real.sqrt (x * y)) (cycAmpR [0, 1, 0, 3] 1 1) (cycAmpR [0, 1, 0, 3] 1 1) =
    cycAmpR [0, 1, 0, 3] 1 1 := powerlaw_gm_identical _ _ _ (by norm_num)

end EqsigVerif.Props.C13
