import EqsigVerif.Prelude.Np
import EqsigVerif.Lemmas.Np
import EqsigVerif.Model.Im
import EqsigVerif.Lemmas.Im.Series
import Mathlib.Tactic.Ring
import Mathlib.Tactic.Linarith
import Mathlib.Tactic.Positivity
import Mathlib.Algebra.Order.Field.Basic
import Mathlib.Algebra.Order.Ring.Rat
/-!
# Lemmas for C10: `np.where(mask)[0]`, first / last index, significant and bracketed durations
-/
set_option linter.unusedSectionVars false
set_option linter.unusedVariables false
namespace EqsigVerif.Lemmas.Im
open EqsigVerif.Np EqsigVerif.Wire EqsigVerif.Model.Im

/-! ### `np.where` -/
section Where
variable {α : Type}

theorem mem_whereIdxFrom (p : α → Bool) (s : Nat) (l : List α) (i : Nat) :
    i ∈ whereIdxFrom p s l ↔ ∃ j, ∃ h : j < l.length, i = s + j ∧ p l[j] = true := by
  induction l generalizing s with
  | nil => simp [whereIdxFrom]
  | cons x xs ih =>
    unfold whereIdxFrom
    constructor
    · intro hi
      by_cases hp : p x = true
      · rw [if_pos hp] at hi
        rcases List.mem_cons.mp hi with rfl | hi
        · exact ⟨0, by simp, rfl, by simpa using hp⟩
        · obtain ⟨j, hj, rfl, hpj⟩ := (ih (s+1)).mp hi
          exact ⟨j+1, by simpa using hj, by omega, by simpa using hpj⟩
      · rw [if_neg hp] at hi
        obtain ⟨j, hj, rfl, hpj⟩ := (ih (s+1)).mp hi
        exact ⟨j+1, by simpa using hj, by omega, by simpa using hpj⟩
    · rintro ⟨j, hj, rfl, hpj⟩
      cases j with
      | zero =>
        have hp : p x = true := by simpa using hpj
        rw [if_pos hp]; simp
      | succ k =>
        have hk : k < xs.length := by simpa using hj
        have hm : s + (k + 1) ∈ whereIdxFrom p (s+1) xs :=
          (ih (s+1)).mpr ⟨k, hk, by omega, by simpa using hpj⟩
        split
        · exact List.mem_cons_of_mem _ hm
        · exact hm

/-- `i ∈ np.where(p(l))[0]` iff `i` is an index of `l` at which `p` holds -/
theorem mem_whereIdx (p : α → Bool) (l : List α) (i : Nat) :
    i ∈ whereIdx p l ↔ ∃ h : i < l.length, p l[i] = true := by
  unfold whereIdx
  rw [mem_whereIdxFrom]
  constructor
  · rintro ⟨j, hj, rfl, hp⟩; simp only [zero_add]; exact ⟨hj, hp⟩
  · rintro ⟨h, hp⟩; exact ⟨i, h, by omega, hp⟩

theorem whereIdxFrom_ge (p : α → Bool) (s : Nat) (l : List α) : ∀ i ∈ whereIdxFrom p s l, s ≤ i := by
  intro i hi
  obtain ⟨j, _, rfl, _⟩ := (mem_whereIdxFrom p s l i).mp hi
  omega

/-- `np.where` returns strictly increasing indices -/
theorem whereIdxFrom_sorted (p : α → Bool) (s : Nat) (l : List α) :
    (whereIdxFrom p s l).Pairwise (· < ·) := by
  induction l generalizing s with
  | nil => simp [whereIdxFrom]
  | cons x xs ih =>
    unfold whereIdxFrom
    split
    · rw [List.pairwise_cons]
      exact ⟨fun i hi => by have := whereIdxFrom_ge p (s+1) xs i hi; omega, ih (s+1)⟩
    · exact ih (s+1)

theorem whereIdxFrom_map {β : Type} (p : α → Bool) (f : β → α) (s : Nat) (l : List β) :
    whereIdxFrom p s (l.map f) = whereIdxFrom (fun x => p (f x)) s l := by
  induction l generalizing s with
  | nil => rfl
  | cons x xs ih => simp only [List.map_cons, whereIdxFrom, ih]

theorem whereIdx_map {β : Type} (p : α → Bool) (f : β → α) (l : List β) :
    whereIdx p (l.map f) = whereIdx (fun x => p (f x)) l := whereIdxFrom_map p f 0 l

theorem whereIdxFrom_congr (p q : α → Bool) (s : Nat) (l : List α) (h : ∀ x ∈ l, p x = q x) :
    whereIdxFrom p s l = whereIdxFrom q s l := by
  induction l generalizing s with
  | nil => rfl
  | cons x xs ih =>
    simp only [whereIdxFrom, h x (by simp), ih (s+1) (fun y hy => h y (by simp [hy]))]

theorem whereIdx_congr (p q : α → Bool) (l : List α) (h : ∀ x ∈ l, p x = q x) :
    whereIdx p l = whereIdx q l := whereIdxFrom_congr p q 0 l h

theorem whereIdxFrom_shift (p : α → Bool) (s k : Nat) (l : List α) :
    whereIdxFrom p (s + k) l = (whereIdxFrom p s l).map (· + k) := by
  induction l generalizing s with
  | nil => rfl
  | cons x xs ih =>
    simp only [whereIdxFrom]
    rw [show s + k + 1 = (s + 1) + k by omega, ih (s+1)]
    split <;> simp

theorem whereIdxFrom_replicate_false (p : α → Bool) (z : α) (hz : p z = false) (s k : Nat) (l : List α) :
    whereIdxFrom p s (List.replicate k z ++ l) = whereIdxFrom p (s + k) l := by
  induction k generalizing s with
  | zero => rfl
  | succ m ih =>
    simp only [List.replicate_succ, List.cons_append, whereIdxFrom, hz]
    rw [ih (s+1)]
    simp only [Bool.false_eq_true, if_false]
    congr 1; omega

/-- a masked-out prefix shifts the indices returned by `np.where` -/
theorem whereIdx_prefix (p : α → Bool) (z : α) (hz : p z = false) (k : Nat) (l : List α) :
    whereIdx p (List.replicate k z ++ l) = (whereIdx p l).map (· + k) := by
  unfold whereIdx
  rw [whereIdxFrom_replicate_false p z hz 0 k l, whereIdxFrom_shift]

end Where

/-! ### first / last -/

theorem le_getLast_of_sorted (l : List Nat) (h : l ≠ []) (hs : l.Pairwise (· < ·)) :
    ∀ j ∈ l, j ≤ l.getLast h := by
  induction l with
  | nil => exact absurd rfl h
  | cons x xs ih =>
    intro j hj
    by_cases hx : xs = []
    · subst hx; simp at hj; simp [hj]
    · rw [List.getLast_cons hx]
      rw [List.pairwise_cons] at hs
      rcases List.mem_cons.mp hj with rfl | hj'
      · exact le_of_lt (hs.1 _ (List.getLast_mem hx))
      · exact ih hx hs.2 j hj'

theorem firstLast_nil : firstLast? [] = none := rfl

theorem firstLast_cons (x : Nat) (xs : List Nat) :
    firstLast? (x :: xs) = some (x, (x :: xs).getLast (by simp)) := by
  simp [firstLast?, List.getLast?_eq_some_getLast]

theorem firstLast_eq_none (idx : List Nat) : firstLast? idx = none ↔ idx = [] := by
  cases idx with
  | nil => simp [firstLast_nil]
  | cons x xs => simp [firstLast_cons]

theorem firstLast_sorted (idx : List Nat) (hs : idx.Pairwise (· < ·)) (i0 i1 : Nat)
    (h : firstLast? idx = some (i0, i1)) : i0 ∈ idx ∧ i1 ∈ idx ∧ ∀ j ∈ idx, i0 ≤ j ∧ j ≤ i1 := by
  cases idx with
  | nil => simp [firstLast_nil] at h
  | cons x xs =>
    rw [firstLast_cons] at h
    simp only [Option.some.injEq, Prod.mk.injEq] at h
    obtain ⟨rfl, rfl⟩ := h
    refine ⟨by simp, List.getLast_mem _, ?_⟩
    intro j hj
    refine ⟨?_, le_getLast_of_sorted _ _ hs j hj⟩
    rw [List.pairwise_cons] at hs
    rcases List.mem_cons.mp hj with rfl | hj'
    · exact le_refl _
    · exact le_of_lt (hs.1 j hj')

theorem firstLast_map_add (idx : List Nat) (k : Nat) :
    firstLast? (idx.map (· + k)) = (firstLast? idx).map (fun p => (p.1 + k, p.2 + k)) := by
  unfold firstLast?
  rw [List.head?_map, List.getLast?_map]
  cases idx.head? <;> cases idx.getLast? <;> rfl

/-- `i0` / `i1` are the first / last index of `l` at which the mask `p` holds -/
def IsFirstLast {α : Type} (p : α → Bool) (l : List α) (i0 i1 : Nat) : Prop :=
  (∃ h : i0 < l.length, p l[i0] = true) ∧ (∃ h : i1 < l.length, p l[i1] = true) ∧
  ∀ (j : Nat) (h : j < l.length), p l[j] = true → i0 ≤ j ∧ j ≤ i1

theorem isFirstLast_unique {α : Type} (p : α → Bool) (l : List α) (i0 i1 j0 j1 : Nat)
    (h : IsFirstLast p l i0 i1) (h' : IsFirstLast p l j0 j1) : i0 = j0 ∧ i1 = j1 := by
  obtain ⟨⟨a0, a1⟩, ⟨b0, b1⟩, c⟩ := h
  obtain ⟨⟨a0', a1'⟩, ⟨b0', b1'⟩, c'⟩ := h'
  have := c j0 a0' a1'; have := c j1 b0' b1'
  have := c' i0 a0 a1; have := c' i1 b0 b1
  omega

theorem isFirstLast_le {α : Type} (p : α → Bool) (l : List α) (i0 i1 : Nat)
    (h : IsFirstLast p l i0 i1) : i0 ≤ i1 ∧ i1 + 1 ≤ l.length := by
  obtain ⟨⟨a0, a1⟩, ⟨b0, b1⟩, c⟩ := h
  have := c i0 a0 a1
  omega

/-- `(ind[0], ind[-1])` of `ind = np.where(p(l))[0]` are the first / last index where `p` holds -/
theorem firstLast_whereIdx_some {α : Type} (p : α → Bool) (l : List α) (i0 i1 : Nat) :
    firstLast? (whereIdx p l) = some (i0, i1) ↔ IsFirstLast p l i0 i1 := by
  have fwd : ∀ a b, firstLast? (whereIdx p l) = some (a, b) → IsFirstLast p l a b := by
    intro a b h
    obtain ⟨h0, h1, h2⟩ := firstLast_sorted _ (whereIdxFrom_sorted p 0 l) a b h
    exact ⟨(mem_whereIdx p l a).mp h0, (mem_whereIdx p l b).mp h1,
      fun j hj hp => h2 j ((mem_whereIdx p l j).mpr ⟨hj, hp⟩)⟩
  constructor
  · exact fwd i0 i1
  · intro h
    cases hfl : firstLast? (whereIdx p l) with
    | none =>
      rw [firstLast_eq_none] at hfl
      have : i0 ∈ whereIdx p l := (mem_whereIdx p l i0).mpr h.1
      rw [hfl] at this; simp at this
    | some ab =>
      obtain ⟨a, b⟩ := ab
      obtain ⟨rfl, rfl⟩ := isFirstLast_unique p l _ _ _ _ (fwd a b hfl) h
      rfl

/-- `np.where` is empty iff the mask holds nowhere -/
theorem firstLast_whereIdx_none {α : Type} (p : α → Bool) (l : List α) :
    firstLast? (whereIdx p l) = none ↔ ∀ (j : Nat) (h : j < l.length), p l[j] = false := by
  rw [firstLast_eq_none]
  constructor
  · intro h j hj
    by_contra hp
    have : j ∈ whereIdx p l := (mem_whereIdx p l j).mpr ⟨hj, by simpa using hp⟩
    rw [h] at this; simp at this
  · intro h
    apply List.eq_nil_iff_forall_not_mem.mpr
    intro j hj
    obtain ⟨hj', hp⟩ := (mem_whereIdx p l j).mp hj
    rw [h j hj'] at hp; exact Bool.false_ne_true hp

/-! ### significant duration -/

theorem sigMask_iff (s e tot c : ℚ) : sigMask s e tot c = true ↔ s * tot < c ∧ c < e * tot := by
  simp [sigMask]

theorem sigMask_eq_false_iff (s e tot c : ℚ) : sigMask s e tot c = false ↔ ¬ (s * tot < c ∧ c < e * tot) := by
  rw [← sigMask_iff]; simp

/-- the index-level result of `sigDurSeries`: `(ind[0], ind[-1])` or `none` -/
def sigIdx (im : List ℚ) (s e : ℚ) : Option (Nat × Nat) :=
  match im.getLast? with
  | none => none
  | some tot => firstLast? (whereIdx (sigMask s e tot) im)

theorem sigDurSeries_eq (im : List ℚ) (dt s e : ℚ) :
    sigDurSeries im dt s e =
      match sigIdx im s e with
      | some (i0, i1) => .ok ((i0 : ℚ) * dt, (i1 : ℚ) * dt)
      | none => .error .IndexError := by
  unfold sigDurSeries sigIdx
  cases im.getLast? with
  | none => rfl
  | some tot => rfl

theorem sigIdx_some_iff (im : List ℚ) (s e : ℚ) (i0 i1 : Nat) :
    sigIdx im s e = some (i0, i1) ↔
      ∃ tot, im.getLast? = some tot ∧ IsFirstLast (sigMask s e tot) im i0 i1 := by
  unfold sigIdx
  cases h : im.getLast? with
  | none => simp
  | some tot => simp [firstLast_whereIdx_some]

theorem sigIdx_none_iff (im : List ℚ) (s e : ℚ) :
    sigIdx im s e = none ↔
      im = [] ∨ ∃ tot, im.getLast? = some tot ∧ ∀ (j : Nat) (h : j < im.length), sigMask s e tot im[j] = false := by
  unfold sigIdx
  cases h : im.getLast? with
  | none => simp [List.getLast?_eq_none_iff.mp h]
  | some tot =>
    have hne : im ≠ [] := by rintro rfl; simp at h
    simp [firstLast_whereIdx_none, hne]

theorem sigDurSeries_ok_iff (im : List ℚ) (dt s e : ℚ) (r : ℚ × ℚ) :
    sigDurSeries im dt s e = .ok r ↔
      ∃ tot i0 i1, im.getLast? = some tot ∧ IsFirstLast (sigMask s e tot) im i0 i1 ∧
        r = ((i0 : ℚ) * dt, (i1 : ℚ) * dt) := by
  rw [sigDurSeries_eq]
  constructor
  · intro h
    cases hi : sigIdx im s e with
    | none => rw [hi] at h; cases h
    | some ab =>
      obtain ⟨a, b⟩ := ab
      rw [hi] at h
      obtain ⟨tot, ht, hfl⟩ := (sigIdx_some_iff im s e a b).mp hi
      refine ⟨tot, a, b, ht, hfl, ?_⟩
      cases h; rfl
  · rintro ⟨tot, i0, i1, ht, hfl, rfl⟩
    rw [(sigIdx_some_iff im s e i0 i1).mpr ⟨tot, ht, hfl⟩]

theorem sigDurSeries_error_iff (im : List ℚ) (dt s e : ℚ) (k : ErrKind) :
    sigDurSeries im dt s e = .error k ↔
      k = .IndexError ∧ (im = [] ∨ ∃ tot, im.getLast? = some tot ∧
        ∀ (j : Nat) (h : j < im.length), sigMask s e tot im[j] = false) := by
  rw [sigDurSeries_eq, ← sigIdx_none_iff]
  cases hi : sigIdx im s e with
  | none => simp; exact eq_comm
  | some ab => obtain ⟨a, b⟩ := ab; simp

/-- the mask is unchanged when series (and hence total) are scaled by `k > 0` -/
theorem sigMask_scale (k : ℚ) (hk : 0 < k) (s e tot c : ℚ) :
    sigMask s e (k * tot) (k * c) = sigMask s e tot c := by
  rw [Bool.eq_iff_iff, sigMask_iff, sigMask_iff]
  have e1 : s * (k * tot) = k * (s * tot) := by ring
  have e2 : e * (k * tot) = k * (e * tot) := by ring
  rw [e1, e2]
  constructor
  · rintro ⟨h1, h2⟩
    exact ⟨lt_of_mul_lt_mul_left h1 hk.le, lt_of_mul_lt_mul_left h2 hk.le⟩
  · rintro ⟨h1, h2⟩
    exact ⟨mul_lt_mul_of_pos_left h1 hk, mul_lt_mul_of_pos_left h2 hk⟩

theorem sigIdx_scale_pos (k : ℚ) (hk : 0 < k) (im : List ℚ) (s e : ℚ) :
    sigIdx (im.map (k * ·)) s e = sigIdx im s e := by
  unfold sigIdx
  rw [List.getLast?_map]
  cases im.getLast? with
  | none => rfl
  | some tot =>
    simp only [Option.map_some]
    rw [whereIdx_map]
    congr 1
    apply whereIdx_congr
    intro c _
    exact sigMask_scale k hk s e tot c

/-- a positive constant factor of the cumulative measure (e.g. Arias' `π/(2·9.81)`) cancels -/
theorem sigDurSeries_scale_pos (k : ℚ) (hk : 0 < k) (im : List ℚ) (dt s e : ℚ) :
    sigDurSeries (im.map (k * ·)) dt s e = sigDurSeries im dt s e := by
  rw [sigDurSeries_eq, sigDurSeries_eq, sigIdx_scale_pos k hk]

/-! #### zero prefix -/

/-- shift both times by `δ` (errors unchanged) -/
def shiftTimes (δ : ℚ) (r : Except ErrKind (ℚ × ℚ)) : Except ErrKind (ℚ × ℚ) :=
  r.map (fun p => (p.1 + δ, p.2 + δ))

theorem sigMask_zero (s e tot : ℚ) (hs : 0 ≤ s) (he : 0 ≤ e) : sigMask s e tot 0 = false := by
  rw [sigMask_eq_false_iff]
  rintro ⟨h1, h2⟩
  rcases le_or_gt 0 tot with ht | ht
  · have := mul_nonneg hs ht; linarith
  · have := mul_nonpos_of_nonneg_of_nonpos he ht.le
    linarith

theorem sigIdx_replicate_zero (k : Nat) (s e : ℚ) : sigIdx (List.replicate k (0 : ℚ)) s e = none := by
  rw [sigIdx_none_iff]
  cases k with
  | zero => left; rfl
  | succ m =>
    right
    refine ⟨0, by simp [List.getLast?_replicate], ?_⟩
    intro j hj
    rw [List.getElem_replicate, sigMask_eq_false_iff]
    rintro ⟨h1, h2⟩
    linarith

theorem sigIdx_zero_prefix (im : List ℚ) (k : Nat) (s e : ℚ) (hs : 0 ≤ s) (he : 0 ≤ e) :
    sigIdx (List.replicate k 0 ++ im) s e = (sigIdx im s e).map (fun p => (p.1 + k, p.2 + k)) := by
  by_cases hne : im = []
  · subst hne
    rw [List.append_nil, sigIdx_replicate_zero]; rfl
  · unfold sigIdx
    have hl : (List.replicate k (0 : ℚ) ++ im).getLast? = im.getLast? := by
      rw [List.getLast?_append]
      cases h : im.getLast? with
      | none => exact absurd (List.getLast?_eq_none_iff.mp h) hne
      | some t => rfl
    rw [hl]
    cases im.getLast? with
    | none => rfl
    | some tot =>
      simp only []
      rw [whereIdx_prefix _ 0 (sigMask_zero s e tot hs he), firstLast_map_add]

/-- prepending `k` zeros to a cumulative series shifts both times by `k·dt` (fractions `≥ 0`) -/
theorem sigDurSeries_zero_prefix (im : List ℚ) (k : Nat) (dt s e : ℚ) (hs : 0 ≤ s) (he : 0 ≤ e) :
    sigDurSeries (List.replicate k 0 ++ im) dt s e = shiftTimes ((k : ℚ) * dt) (sigDurSeries im dt s e) := by
  rw [sigDurSeries_eq, sigDurSeries_eq, sigIdx_zero_prefix im k s e hs he]
  cases sigIdx im s e with
  | none => rfl
  | some ab =>
    obtain ⟨a, b⟩ := ab
    simp only [Option.map_some, shiftTimes, Except.map]
    congr 2 <;> push_cast <;> ring

theorem cumsumFrom_replicate_zero_append (acc : ℚ) (k : Nat) (l : List ℚ) :
    cumsumFrom acc (List.replicate k 0 ++ l) = List.replicate k acc ++ cumsumFrom acc l := by
  induction k with
  | zero => rfl
  | succ m ih =>
    simp only [List.replicate_succ, List.cons_append, cumsumFrom, add_zero, ih]

theorem cumsum_sq_zero_prefix (k : Nat) (a : List ℚ) :
    cumsum (Np.sq (List.replicate k 0 ++ a)) = List.replicate k 0 ++ cumsum (Np.sq a) := by
  have : Np.sq (List.replicate k (0 : ℚ) ++ a) = List.replicate k 0 ++ Np.sq a := by simp [Np.sq]
  rw [this]
  exact cumsumFrom_replicate_zero_append 0 k _

theorem cumtrapz_zero_cons (dx : ℚ) (r : List ℚ) :
    cumtrapz dx (0 :: 0 :: r) = 0 :: cumtrapz dx (0 :: r) := by
  simp [cumtrapz, cumtrapzFrom]

theorem cumtrapz_zero_prefix (dx : ℚ) (k : Nat) (r : List ℚ) :
    cumtrapz dx (List.replicate k 0 ++ 0 :: r) = List.replicate k 0 ++ cumtrapz dx (0 :: r) := by
  induction k with
  | zero => rfl
  | succ m ih =>
    cases m with
    | zero => simp [cumtrapz_zero_cons]
    | succ j =>
      have e : List.replicate (j + 1 + 1) (0 : ℚ) ++ 0 :: r = 0 :: 0 :: (List.replicate j 0 ++ 0 :: r) := by
        simp [List.replicate_succ]
      have e' : List.replicate (j + 1) (0 : ℚ) ++ 0 :: r = 0 :: (List.replicate j 0 ++ 0 :: r) := by
        simp [List.replicate_succ]
      rw [e, cumtrapz_zero_cons, ← e', ih]
      simp [List.replicate_succ]

theorem ariasCore_zero_prefix (dt : ℚ) (k : Nat) (a : List ℚ) (h0 : a.head? = some 0) :
    ariasCore dt (List.replicate k 0 ++ a) = List.replicate k 0 ++ ariasCore dt a := by
  cases a with
  | nil => simp at h0
  | cons x r =>
    simp only [List.head?_cons, Option.some.injEq] at h0
    subst h0
    have : Np.sq (List.replicate k (0 : ℚ) ++ 0 :: r) = List.replicate k 0 ++ 0 :: Np.sq r := by simp [Np.sq]
    unfold ariasCore
    rw [this, cumtrapz_zero_prefix]
    simp [Np.sq]

/-! #### widening -/

theorem sigMask_mono (s e s' e' tot c : ℚ) (ht : 0 ≤ tot) (hs : s' ≤ s) (he : e ≤ e')
    (h : sigMask s e tot c = true) : sigMask s' e' tot c = true := by
  rw [sigMask_iff] at h ⊢
  have h1 : s' * tot ≤ s * tot := mul_le_mul_of_nonneg_right hs ht
  have h2 : e * tot ≤ e' * tot := mul_le_mul_of_nonneg_right he ht
  exact ⟨lt_of_le_of_lt h1 h.1, lt_of_lt_of_le h.2 h2⟩

/-- a larger mask has an earlier first and a later last index -/
theorem isFirstLast_mono {α : Type} (p q : α → Bool) (l : List α) (hpq : ∀ x, p x = true → q x = true)
    (i0 i1 : Nat) (h : IsFirstLast p l i0 i1) :
    ∃ j0 j1, IsFirstLast q l j0 j1 ∧ j0 ≤ i0 ∧ i1 ≤ j1 := by
  obtain ⟨⟨a0, a1⟩, ⟨b0, b1⟩, c⟩ := h
  cases hfl : firstLast? (whereIdx q l) with
  | none =>
    have := (firstLast_whereIdx_none q l).mp hfl i0 a0
    rw [hpq _ a1] at this; cases this
  | some ab =>
    obtain ⟨j0, j1⟩ := ab
    have hq := (firstLast_whereIdx_some q l j0 j1).mp hfl
    refine ⟨j0, j1, hq, ?_, ?_⟩
    · exact (hq.2.2 i0 a0 (hpq _ a1)).1
    · exact (hq.2.2 i1 b0 (hpq _ b1)).2

theorem sigDurSeries_widen (im : List ℚ) (dt s e s' e' : ℚ) (hdt : 0 ≤ dt)
    (htot : ∀ tot, im.getLast? = some tot → 0 ≤ tot) (hs : s' ≤ s) (he : e ≤ e')
    (ts te : ℚ) (h : sigDurSeries im dt s e = .ok (ts, te)) :
    ∃ ts' te', sigDurSeries im dt s' e' = .ok (ts', te') ∧ ts' ≤ ts ∧ te ≤ te' := by
  obtain ⟨tot, i0, i1, ht, hfl, hr⟩ := (sigDurSeries_ok_iff im dt s e _).mp h
  obtain ⟨j0, j1, hq, h0, h1⟩ := isFirstLast_mono _ (sigMask s' e' tot) im
    (fun c hc => sigMask_mono s e s' e' tot c (htot tot ht) hs he hc) i0 i1 hfl
  refine ⟨(j0 : ℚ) * dt, (j1 : ℚ) * dt, (sigDurSeries_ok_iff im dt s' e' _).mpr ⟨tot, j0, j1, ht, hq, rfl⟩, ?_, ?_⟩
  · have : ts = (i0 : ℚ) * dt := (Prod.mk.inj hr).1
    rw [this]
    exact mul_le_mul_of_nonneg_right (by exact_mod_cast h0) hdt
  · have : te = (i1 : ℚ) * dt := (Prod.mk.inj hr).2
    rw [this]
    exact mul_le_mul_of_nonneg_right (by exact_mod_cast h1) hdt

theorem cumsum_sq_nonneg (a : List ℚ) : ∀ x ∈ cumsum (Np.sq a), 0 ≤ x :=
  cumsumFrom_ge 0 _ (mem_sq_nonneg a)

theorem ariasCore_nonneg (dt : ℚ) (hdt : 0 ≤ dt) (a : List ℚ) : ∀ x ∈ ariasCore dt a, 0 ≤ x := by
  intro x hx
  unfold ariasCore at hx
  cases hsq : Np.sq a with
  | nil => rw [hsq] at hx; simp [cumtrapz] at hx
  | cons y ys =>
    rw [hsq] at hx
    have hy : ∀ z ∈ y :: ys, 0 ≤ z := by rw [← hsq]; exact mem_sq_nonneg a
    simp only [cumtrapz, List.mem_cons] at hx
    rcases hx with rfl | hx
    · exact le_refl _
    · exact cumtrapzFrom_ge dt hdt 0 y ys (hy y (by simp)) (fun z hz => hy z (by simp [hz])) x hx

/-! ### bracketed duration -/

/-- the mask `abs(values) > thr` -/
def bracMask (thr : ℚ) : ℚ → Bool := fun x => decide (thr < absv x)

theorem bracMask_iff (thr x : ℚ) : bracMask thr x = true ↔ thr < |x| := by
  simp [bracMask, absv_eq_abs]

/-- the index-level result of `bracDurSE` -/
def bracIdx (a : List ℚ) (thr : ℚ) : Option (Nat × Nat) := firstLast? (whereIdx (bracMask thr) a)

theorem bracDurSE_eq (a : List ℚ) (dt thr : ℚ) :
    bracDurSE a dt thr = (bracIdx a thr).map (fun p => ((p.1 : ℚ) * dt, (p.2 : ℚ) * dt)) := by
  unfold bracDurSE bracIdx bracMask
  cases firstLast? (whereIdx (fun x => decide (thr < absv x)) a) with
  | none => rfl
  | some ab => rfl

theorem bracDur_eq (a : List ℚ) (dt thr : ℚ) :
    bracDur a dt thr = match bracIdx a thr with
      | some (i0, i1) => (i1 : ℚ) * dt - (i0 : ℚ) * dt
      | none => 0 := by
  unfold bracDur
  rw [bracDurSE_eq]
  cases bracIdx a thr with
  | none => rfl
  | some ab => rfl

theorem bracIdx_some_iff (a : List ℚ) (thr : ℚ) (i0 i1 : Nat) :
    bracIdx a thr = some (i0, i1) ↔ IsFirstLast (bracMask thr) a i0 i1 :=
  firstLast_whereIdx_some _ _ _ _

theorem bracIdx_none_iff (a : List ℚ) (thr : ℚ) :
    bracIdx a thr = none ↔ ∀ (j : Nat) (h : j < a.length), ¬ thr < |a[j]| := by
  unfold bracIdx
  rw [firstLast_whereIdx_none]
  constructor
  · intro h j hj hlt
    have := h j hj
    rw [(bracMask_iff thr _).mpr hlt] at this; cases this
  · intro h j hj
    by_contra hne
    exact h j hj ((bracMask_iff thr _).mp (by simpa using hne))

theorem bracMask_mono (thr thr' : ℚ) (h : thr ≤ thr') (x : ℚ) (hx : bracMask thr' x = true) :
    bracMask thr x = true := by
  rw [bracMask_iff] at hx ⊢
  exact lt_of_le_of_lt h hx

theorem bracDur_nonneg (a : List ℚ) (dt thr : ℚ) (hdt : 0 ≤ dt) : 0 ≤ bracDur a dt thr := by
  rw [bracDur_eq]
  cases h : bracIdx a thr with
  | none => exact le_refl _
  | some ab =>
    obtain ⟨i0, i1⟩ := ab
    have := (isFirstLast_le _ _ _ _ ((bracIdx_some_iff a thr i0 i1).mp h)).1
    have : (i0 : ℚ) * dt ≤ (i1 : ℚ) * dt := mul_le_mul_of_nonneg_right (by exact_mod_cast this) hdt
    simp only []
    linarith

/-- bracketed duration is non-increasing in the threshold -/
theorem bracDur_antitone (a : List ℚ) (dt thr thr' : ℚ) (hdt : 0 ≤ dt) (h : thr ≤ thr') :
    bracDur a dt thr' ≤ bracDur a dt thr := by
  cases h' : bracIdx a thr' with
  | none =>
    have e : bracDur a dt thr' = 0 := by rw [bracDur_eq, h']
    rw [e]; exact bracDur_nonneg a dt thr hdt
  | some ab =>
    obtain ⟨i0, i1⟩ := ab
    obtain ⟨j0, j1, hq, h0, h1⟩ := isFirstLast_mono (bracMask thr') (bracMask thr) a
      (fun x hx => bracMask_mono thr thr' h x hx) i0 i1 ((bracIdx_some_iff a thr' i0 i1).mp h')
    have e' : bracDur a dt thr' = (i1 : ℚ) * dt - (i0 : ℚ) * dt := by rw [bracDur_eq, h']
    have e : bracDur a dt thr = (j1 : ℚ) * dt - (j0 : ℚ) * dt := by
      rw [bracDur_eq, (bracIdx_some_iff a thr j0 j1).mpr hq]
    rw [e, e']
    have a0 : (j0 : ℚ) * dt ≤ (i0 : ℚ) * dt := mul_le_mul_of_nonneg_right (by exact_mod_cast h0) hdt
    have a1 : (i1 : ℚ) * dt ≤ (j1 : ℚ) * dt := mul_le_mul_of_nonneg_right (by exact_mod_cast h1) hdt
    linarith

theorem bracIdx_scale (c : ℚ) (hc : 0 < c) (a : List ℚ) (thr : ℚ) :
    bracIdx (a.map (c * ·)) (c * thr) = bracIdx a thr := by
  unfold bracIdx
  rw [whereIdx_map]
  congr 1
  apply whereIdx_congr
  intro x _
  rw [Bool.eq_iff_iff, bracMask_iff, bracMask_iff, abs_mul, abs_of_pos hc]
  constructor
  · intro h; exact lt_of_mul_lt_mul_left h hc.le
  · intro h; exact mul_lt_mul_of_pos_left h hc

/-! ### specification predicates used by the C10 statements -/

/-- sample `i` of the cumulative series lies strictly between the two fractions of the total -/
def Between (im : List ℚ) (s e tot : ℚ) (i : Nat) : Prop :=
  ∃ h : i < im.length, s * tot < im[i] ∧ im[i] < e * tot

theorem isFirstLast_sigMask_iff (im : List ℚ) (s e tot : ℚ) (i0 i1 : Nat) :
    IsFirstLast (sigMask s e tot) im i0 i1 ↔
      Between im s e tot i0 ∧ Between im s e tot i1 ∧ ∀ j, Between im s e tot j → i0 ≤ j ∧ j ≤ i1 := by
  unfold IsFirstLast Between
  simp only [sigMask_iff]
  constructor
  · rintro ⟨h0, h1, h2⟩; exact ⟨h0, h1, fun j ⟨hj, hb⟩ => h2 j hj hb⟩
  · rintro ⟨h0, h1, h2⟩; exact ⟨h0, h1, fun j hj hb => h2 j ⟨hj, hb⟩⟩

/-- sample `i` exceeds the threshold in absolute value -/
def Exceeds (a : List ℚ) (thr : ℚ) (i : Nat) : Prop := ∃ h : i < a.length, thr < |a[i]|

theorem isFirstLast_bracMask_iff (a : List ℚ) (thr : ℚ) (i0 i1 : Nat) :
    IsFirstLast (bracMask thr) a i0 i1 ↔
      Exceeds a thr i0 ∧ Exceeds a thr i1 ∧ ∀ j, Exceeds a thr j → i0 ≤ j ∧ j ≤ i1 := by
  unfold IsFirstLast Exceeds
  simp only [bracMask_iff]
  constructor
  · rintro ⟨h0, h1, h2⟩; exact ⟨h0, h1, fun j ⟨hj, hb⟩ => h2 j hj hb⟩
  · rintro ⟨h0, h1, h2⟩; exact ⟨h0, h1, fun j hj hb => h2 j ⟨hj, hb⟩⟩

end EqsigVerif.Lemmas.Im
