import EqsigVerif.Prelude.Np
import EqsigVerif.Lemmas.Np
import EqsigVerif.Model.Displacements
import EqsigVerif.Model.Im
import EqsigVerif.Lemmas.Im.Velo
import Mathlib.Tactic.Ring
import Mathlib.Tactic.FieldSimp
import Mathlib.Tactic.Linarith
import Mathlib.Tactic.Positivity
import Mathlib.Algebra.Order.Field.Basic
/-!
# Lemmas for C09.a–d: cumulative intensity series (lengths, monotonicity, final values, scaling, padding)
-/
set_option linter.unusedSectionVars false
set_option linter.unusedVariables false
namespace EqsigVerif.Lemmas.Im
open EqsigVerif.Np EqsigVerif.Wire EqsigVerif.Model.Displacements EqsigVerif.Model.Im

section Field
variable {α : Type} [Field α]

/-! ### last elements -/

theorem cumtrapzFrom_getLast (dx acc prev : α) (l : List α) (h : l ≠ []) :
    (cumtrapzFrom dx acc prev l).getLast? = some (acc + trapz dx (prev :: l)) := by
  induction l generalizing acc prev with
  | nil => exact absurd rfl h
  | cons y ys ih =>
    cases ys with
    | nil => simp [cumtrapzFrom, trapz]
    | cons y' r =>
      have := ih (acc + dx * (y + prev) / 2) y (by simp)
      simp only [cumtrapzFrom] at this ⊢
      rw [List.getLast?_cons_cons, this]
      simp only [trapz]
      congr 1; ring

/-- `cumulative_trapezoid(y, dx, initial=0)[-1] = trapz(y, dx)` -/
theorem cumtrapz_getLast (dx : α) (l : List α) (h : l ≠ []) :
    (cumtrapz dx l).getLast? = some (trapz dx l) := by
  cases l with
  | nil => exact absurd rfl h
  | cons x xs =>
    cases xs with
    | nil => simp [cumtrapz, cumtrapzFrom, trapz]
    | cons y r =>
      have := cumtrapzFrom_getLast dx 0 x (y :: r) (by simp)
      simp only [cumtrapz]
      simp only [cumtrapzFrom] at this ⊢
      rw [List.getLast?_cons_cons, this, zero_add]

theorem cumsumFrom_getLast (acc : α) (l : List α) (h : l ≠ []) :
    (cumsumFrom acc l).getLast? = some (l.foldl (· + ·) acc) := by
  induction l generalizing acc with
  | nil => exact absurd rfl h
  | cons y ys ih =>
    cases ys with
    | nil => simp [cumsumFrom]
    | cons y' r =>
      have := ih (acc + y) (by simp)
      simp only [cumsumFrom] at this ⊢
      rw [List.getLast?_cons_cons, this]
      simp

/-- `np.cumsum(l)[-1] = np.sum(l)` -/
theorem cumsum_getLast (l : List α) (h : l ≠ []) : (cumsum l).getLast? = some (Np.sum l) :=
  cumsumFrom_getLast 0 l h

theorem foldl_add_map_mul (acc c : α) (l : List α) :
    (l.map (· * c)).foldl (· + ·) (acc * c) = l.foldl (· + ·) acc * c := by
  induction l generalizing acc with
  | nil => rfl
  | cons x xs ih =>
    simp only [List.map_cons, List.foldl_cons]
    rw [← add_mul, ih]

/-- `np.sum(l * c) = np.sum(l) * c` -/
theorem sum_map_mul (c : α) (l : List α) : Np.sum (l.map (· * c)) = Np.sum l * c := by
  have := foldl_add_map_mul 0 c l
  rw [zero_mul] at this
  exact this

/-! ### homogeneity -/

theorem sq_smul (c : α) (a : List α) : sq (a.map (c * ·)) = (sq a).map (c * c * ·) := by
  simp only [Np.sq, List.map_map]
  apply List.map_congr_left
  intro x _; simp only [Function.comp]; ring

theorem cumsum_smul (c : α) (a : List α) : cumsum (a.map (c * ·)) = (cumsum a).map (c * ·) := by
  have := cumsumFrom_smul c 0 a
  rw [mul_zero] at this
  exact this

theorem ariasCore_smul (dt c : α) (a : List α) :
    ariasCore dt (a.map (c * ·)) = (ariasCore dt a).map (c * c * ·) := by
  simp only [ariasCore, sq_smul, cumtrapz_smul]

theorem arias_smul (k dt c : α) (a : List α) :
    arias k dt (a.map (c * ·)) = (arias k dt a).map (c * c * ·) := by
  simp only [arias, ariasCore_smul, List.map_map]
  apply List.map_congr_left
  intro x _; simp only [Function.comp]; ring

theorem velocity_smul (dt c : α) (a : List α) :
    velocity dt (a.map (c * ·)) = (velocity dt a).map (c * ·) := by
  simp only [velocity, veloDispTrap_smul]

theorem isv_smul (dt c : α) (a : List α) :
    isv dt (a.map (c * ·)) = (isv dt a).map (c * c * ·) := by
  simp only [isv, velocity_smul, sq_smul, cumtrapz_smul]

theorem map_one_mul (l : List α) : l.map (fun x => (1 : α) * x) = l := by
  simp

/-! ### zero padding -/

theorem cumtrapzFrom_replicate_zero (dx acc : α) (m : Nat) :
    cumtrapzFrom dx acc 0 (List.replicate m 0) = List.replicate m acc := by
  induction m with
  | zero => rfl
  | succ k ih =>
    simp only [List.replicate_succ, cumtrapzFrom]
    have e : acc + dx * (0 + 0) / 2 = acc := by ring
    rw [e, ih]

theorem cumtrapzFrom_pad (dx acc prev : α) (l : List α) (m : Nat)
    (h : (prev :: l).getLast (by simp) = 0) :
    cumtrapzFrom dx acc prev (l ++ List.replicate m 0) =
      cumtrapzFrom dx acc prev l ++
        List.replicate m ((acc :: cumtrapzFrom dx acc prev l).getLast (by simp)) := by
  induction l generalizing acc prev with
  | nil =>
    simp only [List.getLast_singleton] at h
    subst h
    simp [cumtrapzFrom, cumtrapzFrom_replicate_zero]
  | cons y ys ih =>
    have h' : (y :: ys).getLast (by simp) = 0 := by
      rw [List.getLast_cons (by simp)] at h; exact h
    simp only [List.cons_append, cumtrapzFrom]
    rw [ih _ _ h']
    simp [List.getLast_cons]

/-- appending zeros to a series that ends at zero continues its cumulative trapezoid with its final value -/
theorem cumtrapz_pad (dx : α) (l : List α) (m : Nat) (h : l.getLast? = some 0) :
    ∃ f, (cumtrapz dx l).getLast? = some f ∧
      cumtrapz dx (l ++ List.replicate m 0) = cumtrapz dx l ++ List.replicate m f := by
  cases l with
  | nil => simp at h
  | cons x xs =>
    have h' : (x :: xs).getLast (by simp) = 0 := by
      rw [List.getLast?_eq_some_getLast (by simp)] at h
      exact Option.some.inj h
    refine ⟨((0 : α) :: cumtrapzFrom dx 0 x xs).getLast (by simp), ?_, ?_⟩
    · simp only [cumtrapz]
      rw [List.getLast?_eq_some_getLast (by simp)]
    · simp only [List.cons_append, cumtrapz]
      rw [cumtrapzFrom_pad dx 0 x xs m h']

theorem cumsumFrom_replicate_zero (acc : α) (m : Nat) :
    cumsumFrom acc (List.replicate m 0) = List.replicate m acc := by
  induction m with
  | zero => rfl
  | succ k ih =>
    simp only [List.replicate_succ, cumsumFrom]
    rw [add_zero, ih]

theorem cumsumFrom_pad (acc : α) (l : List α) (m : Nat) :
    cumsumFrom acc (l ++ List.replicate m 0) =
      cumsumFrom acc l ++ List.replicate m ((acc :: cumsumFrom acc l).getLast (by simp)) := by
  induction l generalizing acc with
  | nil => simp [cumsumFrom, cumsumFrom_replicate_zero]
  | cons y ys ih =>
    simp only [List.cons_append, cumsumFrom]
    rw [ih]
    simp [List.getLast_cons]

/-- appending zeros continues a cumulative sum with its final value (`0` for the empty series) -/
theorem cumsum_pad (l : List α) (m : Nat) :
    cumsum (l ++ List.replicate m 0) = cumsum l ++ List.replicate m ((cumsum l).getLast?.getD 0) := by
  unfold cumsum
  rw [cumsumFrom_pad]
  cases l with
  | nil => simp [cumsumFrom]
  | cons x xs =>
    congr 2

theorem sq_pad (a : List α) (m : Nat) : Np.sq (a ++ List.replicate m 0) = Np.sq a ++ List.replicate m 0 := by
  simp [Np.sq]

theorem sq_getLast_zero (a : List α) (h : a.getLast? = some 0) : (Np.sq a).getLast? = some 0 := by
  simp [Np.sq, List.getLast?_map, h]

theorem ariasCore_pad (dt : α) (a : List α) (m : Nat) (h : a.getLast? = some 0) :
    ∃ f, (ariasCore dt a).getLast? = some f ∧
      ariasCore dt (a ++ List.replicate m 0) = ariasCore dt a ++ List.replicate m f := by
  simp only [ariasCore, sq_pad]
  exact cumtrapz_pad dt (Np.sq a) m (sq_getLast_zero a h)

theorem arias_pad (k dt : α) (a : List α) (m : Nat) (h : a.getLast? = some 0) :
    ∃ f, (arias k dt a).getLast? = some f ∧
      arias k dt (a ++ List.replicate m 0) = arias k dt a ++ List.replicate m f := by
  obtain ⟨f, h1, h2⟩ := ariasCore_pad dt a m h
  refine ⟨k * f, ?_, ?_⟩
  · simp [arias, List.getLast?_map, h1]
  · simp [arias, h2]

/-! ### length -/

@[simp] theorem length_ariasCore (dt : α) (a : List α) : (ariasCore dt a).length = a.length := by
  simp [ariasCore, Np.sq]
@[simp] theorem length_arias (k dt : α) (a : List α) : (arias k dt a).length = a.length := by
  simp [arias]
@[simp] theorem length_velocity (dt : α) (a : List α) : (velocity dt a).length = a.length := by
  simp [velocity, veloDispTrap]
@[simp] theorem length_isv (dt : α) (a : List α) : (isv dt a).length = a.length := by
  simp [isv, Np.sq]

end Field

section Ordered
variable {α : Type} [Field α] [LinearOrder α] [IsStrictOrderedRing α]

theorem absv_mul (c x : α) : absv (c * x) = |c| * absv x := by
  simp [absv_eq_abs, abs_mul]

theorem absv_zero : absv (0 : α) = 0 := by simp [absv_eq_abs]

theorem absL_smul (c : α) (a : List α) : absL (a.map (c * ·)) = (absL a).map (|c| * ·) := by
  simp only [absL, List.map_map]
  apply List.map_congr_left
  intro x _; simp only [Function.comp, absv_mul]

theorem absL_pad (a : List α) (m : Nat) : absL (a ++ List.replicate m 0) = absL a ++ List.replicate m 0 := by
  simp [absL, absv_zero]

theorem absL_getLast_zero (a : List α) (h : a.getLast? = some 0) : (absL a).getLast? = some 0 := by
  simp [absL, List.getLast?_map, h, absv_zero]

theorem mem_absL_nonneg (a : List α) : ∀ x ∈ absL a, 0 ≤ x := by
  intro x hx
  obtain ⟨y, _, rfl⟩ := List.mem_map.mp hx
  exact absv_nonneg y

theorem mem_sq_nonneg (a : List α) : ∀ x ∈ Np.sq a, 0 ≤ x := by
  intro x hx
  obtain ⟨y, _, rfl⟩ := List.mem_map.mp hx
  exact mul_self_nonneg y

@[simp] theorem length_cav (dt : α) (a : List α) : (cav dt a).length = a.length := by
  simp [cav, absL]
@[simp] theorem length_intAbsAcc (dt : α) (a : List α) : (intAbsAcc dt a).length = a.length := by
  simp [intAbsAcc, absL]
@[simp] theorem length_intAbsVel (dt : α) (a : List α) : (intAbsVel dt a).length = a.length := by
  simp [intAbsVel, absL]

/-! ### monotonicity -/

theorem ariasCore_pairwise (dt : α) (hdt : 0 ≤ dt) (a : List α) : (ariasCore dt a).Pairwise (· ≤ ·) :=
  cumtrapz_pairwise dt hdt _ (mem_sq_nonneg a)

theorem arias_pairwise (k dt : α) (hk : 0 ≤ k) (hdt : 0 ≤ dt) (a : List α) :
    (arias k dt a).Pairwise (· ≤ ·) := by
  unfold arias
  rw [List.pairwise_map]
  exact (ariasCore_pairwise dt hdt a).imp (fun h => mul_le_mul_of_nonneg_left h hk)

theorem cav_pairwise (dt : α) (hdt : 0 ≤ dt) (a : List α) : (cav dt a).Pairwise (· ≤ ·) :=
  cumtrapz_pairwise dt hdt _ (mem_absL_nonneg a)

theorem isv_pairwise (dt : α) (hdt : 0 ≤ dt) (a : List α) : (isv dt a).Pairwise (· ≤ ·) :=
  cumtrapz_pairwise dt hdt _ (mem_sq_nonneg _)

theorem cumsum_absL_mul_pairwise (dt : α) (hdt : 0 ≤ dt) (a : List α) :
    (cumsum ((absL a).map (· * dt))).Pairwise (· ≤ ·) := by
  apply cumsumFrom_pairwise
  intro x hx
  obtain ⟨y, hy, rfl⟩ := List.mem_map.mp hx
  exact mul_nonneg (mem_absL_nonneg a y hy) hdt

theorem intAbsAcc_pairwise (dt : α) (hdt : 0 ≤ dt) (a : List α) : (intAbsAcc dt a).Pairwise (· ≤ ·) :=
  cumsum_absL_mul_pairwise dt hdt a

theorem intAbsVel_pairwise (dt : α) (hdt : 0 ≤ dt) (a : List α) : (intAbsVel dt a).Pairwise (· ≤ ·) :=
  cumsum_absL_mul_pairwise dt hdt _

/-! ### scaling of the `|·|`-based series -/

theorem cav_smul (dt c : α) (a : List α) : cav dt (a.map (c * ·)) = (cav dt a).map (|c| * ·) := by
  simp only [cav, absL_smul, cumtrapz_smul]

theorem cumsum_absL_mul_smul (dt c : α) (a : List α) :
    cumsum ((absL (a.map (c * ·))).map (· * dt)) = (cumsum ((absL a).map (· * dt))).map (|c| * ·) := by
  rw [absL_smul, ← cumsum_smul]
  congr 1
  simp only [List.map_map]
  apply List.map_congr_left
  intro x _; simp only [Function.comp]; ring

theorem intAbsAcc_smul (dt c : α) (a : List α) :
    intAbsAcc dt (a.map (c * ·)) = (intAbsAcc dt a).map (|c| * ·) :=
  cumsum_absL_mul_smul dt c a

theorem intAbsVel_smul (dt c : α) (a : List α) :
    intAbsVel dt (a.map (c * ·)) = (intAbsVel dt a).map (|c| * ·) := by
  simp only [intAbsVel, velocity_smul]
  exact cumsum_absL_mul_smul dt c _

/-! ### padding of the `|·|`-based acceleration series -/

theorem cav_pad (dt : α) (a : List α) (m : Nat) (h : a.getLast? = some 0) :
    ∃ f, (cav dt a).getLast? = some f ∧
      cav dt (a ++ List.replicate m 0) = cav dt a ++ List.replicate m f := by
  simp only [cav, absL_pad]
  exact cumtrapz_pad dt (absL a) m (absL_getLast_zero a h)

theorem intAbsAcc_pad (dt : α) (a : List α) (m : Nat) :
    intAbsAcc dt (a ++ List.replicate m 0) =
      intAbsAcc dt a ++ List.replicate m ((intAbsAcc dt a).getLast?.getD 0) := by
  simp only [intAbsAcc, absL_pad, List.map_append, List.map_replicate, zero_mul]
  exact cumsum_pad _ m

/-! ### unit kinetic energy -/

theorem diffFrom_smul (k p : α) (l : List α) :
    diffFrom (k * p) (l.map (k * ·)) = (diffFrom p l).map (k * ·) := by
  induction l generalizing p with
  | nil => rfl
  | cons x xs ih => simp only [List.map_cons, diffFrom, ih, mul_sub]

theorem length_diffFrom (p : α) (l : List α) : (diffFrom p l).length = l.length := by
  induction l generalizing p with
  | nil => rfl
  | cons x xs ih => simp [diffFrom, ih]

theorem kinEnergy_smul (c : α) (v : List α) :
    kinEnergy (v.map (c * ·)) = (kinEnergy v).map (c * |c| * ·) := by
  simp only [kinEnergy, List.map_map]
  apply List.map_congr_left
  intro x _; simp only [Function.comp, absv_mul]; ring

/-- `cumAbsDelta kin = cumsum |Δ kin|` with `Δ` taken from `0` -/
theorem cumAbsDelta_cons (k0 : α) (ks : List α) :
    cumAbsDelta (k0 :: ks) = .ok (cumsum (absL (diffFrom 0 (k0 :: ks)))) := by
  simp [cumAbsDelta, ediff1d, diff, diffFrom]

theorem cumAbsDelta_smul (k : α) (kin : List α) :
    cumAbsDelta (kin.map (k * ·)) = (cumAbsDelta kin).map (List.map (|k| * ·)) := by
  cases kin with
  | nil => rfl
  | cons k0 ks =>
    rw [cumAbsDelta_cons]
    have e : List.map (k * ·) (k0 :: ks) = (k * k0) :: ks.map (k * ·) := rfl
    rw [e, cumAbsDelta_cons]
    have h := diffFrom_smul k 0 (k0 :: ks)
    rw [mul_zero] at h
    rw [← e, h, absL_smul, cumsum_smul]
    rfl

theorem unitKineticEnergy_smul (dt c : α) (a : List α) :
    unitKineticEnergy dt (a.map (c * ·)) = (unitKineticEnergy dt a).map (List.map (c * c * ·)) := by
  simp only [unitKineticEnergy, velocity_smul, kinEnergy_smul, cumAbsDelta_smul]
  have : abs (c * abs c) = c * c := by rw [abs_mul, abs_abs, abs_mul_abs_self]
  rw [this]

/-- the unit-kinetic-energy series of a non-empty record: value, length, monotonicity -/
theorem unitKineticEnergy_ok (dt : α) (a : List α) (h : a ≠ []) :
    ∃ s, unitKineticEnergy dt a = .ok s ∧
      s = cumsum (absL (diffFrom 0 (kinEnergy (velocity dt a)))) ∧
      s.length = a.length ∧ s.Pairwise (· ≤ ·) := by
  have hl : (kinEnergy (velocity dt a)).length = a.length := by simp [kinEnergy]
  cases hk : kinEnergy (velocity dt a) with
  | nil => rw [hk] at hl; exact absurd (List.eq_nil_of_length_eq_zero hl.symm) h
  | cons k0 ks =>
    refine ⟨_, ?_, rfl, ?_, ?_⟩
    · rw [unitKineticEnergy, hk, cumAbsDelta_cons]
    · rw [← hl, hk]; simp [absL, length_diffFrom]
    · exact cumsumFrom_pairwise 0 _ (mem_absL_nonneg _)

/-! ### zero padding of the unit-kinetic-energy series -/

theorem diffFrom_replicate_self (f : α) (m : Nat) : diffFrom f (List.replicate m f) = List.replicate m 0 := by
  induction m with
  | zero => rfl
  | succ k ih => simp only [List.replicate_succ, diffFrom, sub_self, ih]

theorem diffFrom_pad (p f : α) (l : List α) (m : Nat) (h : (p :: l).getLast (by simp) = f) :
    diffFrom p (l ++ List.replicate m f) = diffFrom p l ++ List.replicate m 0 := by
  induction l generalizing p with
  | nil =>
    simp only [List.getLast_singleton] at h
    subst h
    simp [diffFrom, diffFrom_replicate_self]
  | cons y ys ih =>
    have h' : (y :: ys).getLast (by simp) = f := by
      rw [List.getLast_cons (by simp)] at h; exact h
    simp only [List.cons_append, diffFrom, ih y h']

theorem velocity_pad (dt : α) (a : List α) (m : Nat) (h : a.getLast? = some 0) :
    ∃ f, (velocity dt a).getLast? = some f ∧
      velocity dt (a ++ List.replicate m 0) = velocity dt a ++ List.replicate m f := by
  simp only [velocity, veloDispTrap]
  exact cumtrapz_pad dt a m h

/-- C09.d for unit kinetic energy: after the record has ended at zero the velocity is constant, so the
series continues with its final value -/
theorem unitKineticEnergy_pad (dt : α) (a : List α) (m : Nat) (h : a.getLast? = some 0) :
    ∃ s f, unitKineticEnergy dt a = .ok s ∧ s.getLast? = some f ∧
      unitKineticEnergy dt (a ++ List.replicate m 0) = .ok (s ++ List.replicate m f) := by
  obtain ⟨vf, hv1, hv2⟩ := velocity_pad dt a m h
  have hkin : kinEnergy (velocity dt a ++ List.replicate m vf) =
      kinEnergy (velocity dt a) ++ List.replicate m ((1 / 2 : α) * vf * absv vf) := by
    simp [kinEnergy]
  have hklast : (kinEnergy (velocity dt a)).getLast? = some ((1 / 2 : α) * vf * absv vf) := by
    simp [kinEnergy, List.getLast?_map, hv1]
  unfold unitKineticEnergy
  rw [hv2, hkin]
  cases hk : kinEnergy (velocity dt a) with
  | nil => rw [hk] at hklast; simp at hklast
  | cons k0 ks =>
    rw [hk] at hklast
    have hl : ((0 : α) :: k0 :: ks).getLast (by simp) = (1 / 2 : α) * vf * absv vf := by
      rw [List.getLast_cons (by simp)]
      rw [List.getLast?_eq_some_getLast (by simp)] at hklast
      exact Option.some.inj hklast
    have e : (k0 :: ks) ++ List.replicate m ((1 / 2 : α) * vf * absv vf) =
        k0 :: (ks ++ List.replicate m ((1 / 2 : α) * vf * absv vf)) := rfl
    rw [e, cumAbsDelta_cons, cumAbsDelta_cons, ← e, diffFrom_pad 0 _ (k0 :: ks) m hl, absL_pad, cumsum_pad]
    have hne : cumsum (absL (diffFrom 0 (k0 :: ks))) ≠ [] := by
      intro h0
      have := congrArg List.length h0
      simp [absL, length_diffFrom] at this
    refine ⟨_, (cumsum (absL (diffFrom 0 (k0 :: ks)))).getLast hne, rfl,
      List.getLast?_eq_some_getLast hne, ?_⟩
    rw [List.getLast?_eq_some_getLast hne]
    rfl

end Ordered
end EqsigVerif.Lemmas.Im
