import EqsigVerif.Lemmas.Im.Velo
/-! # Lemmas for `Model/Im.lean` (C08, C09, C10): umbrella module -/
