import EqsigVerif.Prelude.Np
import EqsigVerif.Lemmas.Np
import EqsigVerif.Model.PowerLaw
import Mathlib.Analysis.SpecialFunctions.Pow.Real
import Mathlib.Analysis.SpecialFunctions.Sqrt
import Mathlib.Algebra.BigOperators.Group.List.Basic
/-!
# Lemmas for C13.d: the power-law equivalent-cycle measures over `ℝ` (`pow := Real.rpow`)
-/
set_option linter.unusedSectionVars false
set_option linter.unusedVariables false
namespace EqsigVerif.Lemmas.PowerLaw
open EqsigVerif.Np EqsigVerif.Model.PowerLaw

/-- the model's power function at `ℝ`: `x ** y = Real.rpow x y` -/
noncomputable def rpowR : ℝ → ℝ → ℝ := fun x y => x ^ y

/-- `calc_n_cyc_array_w_power_law` core at `ℝ` (`half = 0.5`) -/
noncomputable def nCycR (n : Nat) (idx : List Nat) (pk : List ℝ) (aRef b : ℝ) : List ℝ :=
  nCycCore rpowR (1 / 2) n idx pk aRef b

/-- `calc_cyc_amp_array_w_power_law` core at `ℝ` -/
noncomputable def cycAmpR (csr : List ℝ) (nCyc b : ℝ) : List ℝ := cycAmpCore rpowR csr nCyc b

/-- `calc_cyc_amp_combined_arrays_w_power_law` core at `ℝ` -/
noncomputable def cycAmpCombinedR (csr0 csr1 : List ℝ) (nCyc b : ℝ) : List ℝ :=
  cycAmpCombinedCore rpowR csr0 csr1 nCyc b

/-- the increments `0.5 / (n_ref * (a_ref / pk) ** (1/b))`, `n_ref = 1` -/
noncomputable def percR (pk : List ℝ) (aRef b : ℝ) : List ℝ :=
  pk.map (fun p => (1 / 2) / (1 * rpowR (aRef / p) (1 / b)))

/-- the final cycle count `n_eq[-1]` (`0` when there is no peak) -/
noncomputable def nTotR (pk : List ℝ) (aRef b : ℝ) : ℝ := (cumsum (percR pk aRef b)).getLastD 0

/-- the summands of the amplitude series -/
noncomputable def ampTerm (nCyc b : ℝ) (x : ℝ) : ℝ := rpowR (absv x) (1 / b) / 2 / nCyc

/-! ### cumsum and sums -/

theorem cumsumFrom_getLastD (acc : ℝ) (l : List ℝ) : (cumsumFrom acc l).getLastD acc = acc + l.sum := by
  induction l generalizing acc with
  | nil => simp [cumsumFrom]
  | cons x xs ih =>
    simp only [cumsumFrom, List.sum_cons]
    rw [List.getLastD_cons, ih]; ring

theorem cumsum_getLastD (l : List ℝ) : (cumsum l).getLastD 0 = l.sum := by
  unfold cumsum; rw [cumsumFrom_getLastD, zero_add]

theorem cumsum_getLast? (l : List ℝ) (h : l ≠ []) : (cumsum l).getLast? = some l.sum := by
  have hne : cumsum l ≠ [] := by
    intro h0; have := congrArg List.length h0; simp at this; exact h this
  rw [List.getLast?_eq_some_getLast hne]
  congr 1
  have := cumsum_getLastD l
  rw [List.getLastD_eq_getLast?, List.getLast?_eq_some_getLast hne] at this
  exact this

theorem cumsum_mem_nonneg (l : List ℝ) (h : ∀ x ∈ l, 0 ≤ x) : ∀ s ∈ cumsum l, 0 ≤ s :=
  cumsumFrom_ge 0 l h

theorem cumsum_pairwise (l : List ℝ) (h : ∀ x ∈ l, 0 ≤ x) : (cumsum l).Pairwise (· ≤ ·) :=
  cumsumFrom_pairwise 0 l h

theorem cumsum_smul (c : ℝ) (l : List ℝ) : cumsum (l.map (c * ·)) = (cumsum l).map (c * ·) := by
  have := cumsumFrom_smul c 0 l
  rw [mul_zero] at this
  exact this

theorem sum_filter_ne_zero (g : ℝ → ℝ) (hg : g 0 = 0) (l : List ℝ) :
    (l.map g).sum = ((l.filter (fun x => decide (x ≠ 0))).map g).sum := by
  induction l with
  | nil => rfl
  | cons x xs ih =>
    by_cases hx : x = 0
    · subst hx; simp [hg, ih]
    · simp [hx, ih]

/-! ### `rpow` algebra -/

theorem absv_real (x : ℝ) : absv x = |x| := absv_eq_abs x

theorem zero_rpow_inv (b : ℝ) (hb : 0 < b) : rpowR 0 (1 / b) = 0 := by
  unfold rpowR
  exact Real.zero_rpow (by positivity)

theorem rpow_inv_rpow (x b : ℝ) (hx : 0 ≤ x) (hb : 0 < b) : rpowR (rpowR x (1 / b)) b = x := by
  unfold rpowR
  rw [← Real.rpow_mul hx, one_div, inv_mul_cancel₀ hb.ne', Real.rpow_one]

theorem ampTerm_nonneg (nCyc b : ℝ) (hN : 0 < nCyc) (x : ℝ) : 0 ≤ ampTerm nCyc b x := by
  unfold ampTerm rpowR
  rw [absv_real]
  have : 0 ≤ |x| ^ (1 / b) := Real.rpow_nonneg (abs_nonneg x) _
  positivity

theorem ampTerm_zero (nCyc b : ℝ) (hb : 0 < b) : ampTerm nCyc b 0 = 0 := by
  unfold ampTerm
  rw [absv_real, abs_zero, zero_rpow_inv b hb]; simp

theorem ampTerm_smul (nCyc b c : ℝ) (hc : 0 ≤ c) (x : ℝ) :
    ampTerm nCyc b (c * x) = rpowR c (1 / b) * ampTerm nCyc b x := by
  unfold ampTerm rpowR
  rw [absv_real, absv_real, abs_mul, abs_of_nonneg hc, Real.mul_rpow hc (abs_nonneg x)]
  ring

theorem perc_nonneg (aRef b p : ℝ) (ha : 0 ≤ aRef) (hp : 0 ≤ p) :
    0 ≤ (1 / 2 : ℝ) / (1 * rpowR (aRef / p) (1 / b)) := by
  unfold rpowR
  have : 0 ≤ (aRef / p) ^ (1 / b) := Real.rpow_nonneg (div_nonneg ha hp) _
  positivity

/-- `0.5 / (1·(a_ref/p)^(1/b)) = (p^(1/b)/2) / a_ref^(1/b)` -/
theorem perc_eq (aRef b p : ℝ) (ha : 0 < aRef) (hp : 0 < p) :
    (1 / 2 : ℝ) / (1 * rpowR (aRef / p) (1 / b)) = (rpowR p (1 / b) / 2) / rpowR aRef (1 / b) := by
  unfold rpowR
  rw [Real.div_rpow ha.le hp.le]
  have h1 : 0 < p ^ (1 / b) := Real.rpow_pos_of_pos hp _
  have h2 : 0 < aRef ^ (1 / b) := Real.rpow_pos_of_pos ha _
  field_simp

/-! ### `interp1d(kind='previous')` -/

/-- the scan returns the start value or one of the ordinates -/
theorem prevKnot_mem (i : Nat) (cur : ℝ) (knots : List (Nat × ℝ)) :
    prevKnot i cur knots = cur ∨ prevKnot i cur knots ∈ knots.map Prod.snd := by
  induction knots generalizing cur with
  | nil => left; rfl
  | cons k rest ih =>
    obtain ⟨x, y⟩ := k
    simp only [prevKnot]
    split
    · rcases ih y with h | h
      · right; rw [h]; simp
      · right; simp only [List.map_cons, List.mem_cons]; exact Or.inr h
    · left; rfl

/-- with non-decreasing ordinates (all `≥` the start value) the scan never goes below its start value -/
theorem prevKnot_ge (i : Nat) (cur : ℝ) (knots : List (Nat × ℝ)) (hc : ∀ y ∈ knots.map Prod.snd, cur ≤ y) :
    cur ≤ prevKnot i cur knots := by
  rcases prevKnot_mem i cur knots with h | h
  · rw [h]
  · exact hc _ h

/-- `interp1d(kind='previous')` of a non-decreasing knot table is non-decreasing in the query index -/
theorem prevKnot_mono (i j : Nat) (hij : i ≤ j) (cur : ℝ) (knots : List (Nat × ℝ))
    (hs : (cur :: knots.map Prod.snd).Pairwise (· ≤ ·)) :
    prevKnot i cur knots ≤ prevKnot j cur knots := by
  induction knots generalizing cur with
  | nil => exact le_refl _
  | cons k rest ih =>
    obtain ⟨x, y⟩ := k
    simp only [List.map_cons, List.pairwise_cons] at hs
    obtain ⟨hcur, hy, hrest⟩ := hs
    have hs' : (y :: rest.map Prod.snd).Pairwise (· ≤ ·) := List.pairwise_cons.mpr ⟨hy, hrest⟩
    simp only [prevKnot]
    by_cases hxi : x ≤ i
    · rw [if_pos hxi, if_pos (le_trans hxi hij)]
      exact ih y hs'
    · rw [if_neg hxi]
      by_cases hxj : x ≤ j
      · rw [if_pos hxj]
        exact le_trans (hcur y (by simp)) (prevKnot_ge j y rest hy)
      · rw [if_neg hxj]

/-- when every abscissa of a block of knots is `≤ i` the scan passes through the block -/
theorem prevKnot_append_le (i : Nat) (cur : ℝ) (k1 k2 : List (Nat × ℝ)) (h : ∀ k ∈ k1, k.1 ≤ i) :
    prevKnot i cur (k1 ++ k2) = prevKnot i ((cur :: k1.map Prod.snd).getLast (by simp)) k2 := by
  induction k1 generalizing cur with
  | nil => rfl
  | cons k rest ih =>
    obtain ⟨x, y⟩ := k
    have hx : x ≤ i := h (x, y) (by simp)
    simp only [List.cons_append, prevKnot, if_pos hx]
    rw [ih y (fun k hk => h k (by simp [hk]))]
    simp [List.getLast_cons]

theorem map_snd_zip_sublist {β γ : Type} (a : List β) (l : List γ) : ((a.zip l).map Prod.snd).Sublist l := by
  induction a generalizing l with
  | nil => simp
  | cons x xs ih =>
    cases l with
    | nil => simp
    | cons y ys => simpa using (ih ys)

theorem map_snd_zip_eq {β γ : Type} (a : List β) (l : List γ) (h : a.length = l.length) :
    (a.zip l).map Prod.snd = l := by
  induction a generalizing l with
  | nil => cases l <;> simp_all
  | cons x xs ih =>
    cases l with
    | nil => simp at h
    | cons y ys => simp [ih ys (by simpa using h)]

theorem le_getLastD_of_sorted (l : List ℝ) (hs : l.Pairwise (· ≤ ·)) (d : ℝ) : ∀ x ∈ l, x ≤ l.getLastD d := by
  induction l with
  | nil => simp
  | cons a r ih =>
    intro x hx
    rw [List.pairwise_cons] at hs
    rw [List.getLastD_cons]
    rcases List.mem_cons.mp hx with rfl | hx'
    · cases r with
      | nil => simp
      | cons c r' =>
        have hm : (c :: r').getLastD x ∈ c :: r' := by
          rw [List.getLastD_eq_getLast?, List.getLast?_eq_some_getLast (by simp)]
          exact List.getLast_mem _
        exact hs.1 _ hm
    · cases r with
      | nil => simp at hx'
      | cons c r' =>
        have := ih hs.2 x hx'
        rw [List.getLastD_cons] at this ⊢
        exact this

/-! ### the cycle-count series -/

theorem percR_nonneg (pk : List ℝ) (aRef b : ℝ) (ha : 0 < aRef) (hpk : ∀ p ∈ pk, 0 < p) :
    ∀ x ∈ percR pk aRef b, 0 ≤ x := by
  intro x hx
  obtain ⟨p, hp, rfl⟩ := List.mem_map.mp hx
  exact perc_nonneg aRef b p ha.le (hpk p hp).le

theorem nCycR_eq (n : Nat) (idx : List Nat) (pk : List ℝ) (aRef b : ℝ) :
    nCycR n idx pk aRef b = (List.range n).map (fun i => prevKnot i 0
      ((0, 0) :: (idx.zip (cumsum (percR pk aRef b))) ++ [(n, nTotR pk aRef b)])) := rfl

/-- the ordinates of the knot table are non-decreasing, starting from `0` -/
theorem knots_sorted (n : Nat) (idx : List Nat) (pk : List ℝ) (aRef b : ℝ) (ha : 0 < aRef)
    (hpk : ∀ p ∈ pk, 0 < p) :
    ((0 : ℝ) :: (((0 : Nat), (0 : ℝ)) :: (idx.zip (cumsum (percR pk aRef b))) ++ [(n, nTotR pk aRef b)]).map
      Prod.snd).Pairwise (· ≤ ·) := by
  have hnn := cumsum_mem_nonneg _ (percR_nonneg pk aRef b ha hpk)
  have hpw := cumsum_pairwise _ (percR_nonneg pk aRef b ha hpk)
  have hsub := map_snd_zip_sublist idx (cumsum (percR pk aRef b))
  have hlast : ∀ x ∈ cumsum (percR pk aRef b), x ≤ nTotR pk aRef b :=
    le_getLastD_of_sorted _ hpw 0
  have htot : 0 ≤ nTotR pk aRef b := by
    unfold nTotR
    rw [cumsum_getLastD]
    exact List.sum_nonneg (percR_nonneg pk aRef b ha hpk)
  simp only [List.cons_append, List.map_cons, List.map_append, List.map_nil]
  rw [List.pairwise_cons]
  refine ⟨?_, ?_⟩
  · intro y hy
    simp only [List.mem_cons, List.mem_append, List.not_mem_nil, or_false] at hy
    rcases hy with rfl | hy | rfl
    · exact le_refl _
    · exact hnn y (hsub.subset hy)
    · exact htot
  · rw [List.pairwise_cons]
    refine ⟨?_, ?_⟩
    · intro y hy
      simp only [List.mem_append, List.mem_cons, List.not_mem_nil, or_false] at hy
      rcases hy with hy | rfl
      · exact hnn y (hsub.subset hy)
      · exact htot
    · rw [List.pairwise_append]
      refine ⟨hpw.sublist hsub, by simp, ?_⟩
      intro x hx y hy
      simp only [List.mem_cons, List.not_mem_nil, or_false] at hy
      subst hy
      exact hlast x (hsub.subset hx)

theorem nCycR_pairwise (n : Nat) (idx : List Nat) (pk : List ℝ) (aRef b : ℝ) (ha : 0 < aRef)
    (hpk : ∀ p ∈ pk, 0 < p) : (nCycR n idx pk aRef b).Pairwise (· ≤ ·) := by
  rw [nCycR_eq, List.pairwise_map]
  have hr : (List.range n).Pairwise (· < ·) := List.pairwise_lt_range
  refine hr.imp ?_
  intro i j hij
  exact prevKnot_mono i j hij.le 0 _ (knots_sorted n idx pk aRef b ha hpk)

/-- the final value of the series is the total `n_eq[-1] = Σ perc` (peak indices inside the record) -/
theorem nCycR_getLast (n : Nat) (idx : List Nat) (pk : List ℝ) (aRef b : ℝ) (hn : 0 < n)
    (hlen : idx.length = pk.length) (hidx : ∀ i ∈ idx, i < n) :
    (nCycR n idx pk aRef b).getLast? = some (percR pk aRef b).sum := by
  rw [nCycR_eq, List.getLast?_map, List.getLast?_range, if_neg (by omega), Option.map_some]
  congr 1
  have hz : ((0 : Nat), (0 : ℝ)) :: (idx.zip (cumsum (percR pk aRef b))) ++ [(n, nTotR pk aRef b)] =
      (((0 : Nat), (0 : ℝ)) :: (idx.zip (cumsum (percR pk aRef b)))) ++ [(n, nTotR pk aRef b)] := rfl
  rw [hz, prevKnot_append_le (n - 1) 0 _ _ ?_]
  · have hl : idx.length = (cumsum (percR pk aRef b)).length := by simp [percR, hlen]
    simp only [prevKnot, List.map_cons, map_snd_zip_eq idx _ hl]
    rw [if_neg (by omega)]
    have : ((0 : ℝ) :: 0 :: cumsum (percR pk aRef b)).getLast (by simp) = (cumsum (percR pk aRef b)).getLastD 0 := by
      rw [List.getLast_cons (by simp)]
      cases hc : cumsum (percR pk aRef b) with
      | nil => simp
      | cons c r =>
        rw [List.getLast_cons (by simp), List.getLastD_eq_getLast?, List.getLast?_eq_some_getLast (by simp)]
        rfl
    rw [this, cumsum_getLastD]
  · intro k hk
    rcases List.mem_cons.mp hk with rfl | hk'
    · exact Nat.zero_le _
    · have := hidx k.1 (List.of_mem_zip hk').1
      omega

theorem nCycR_scale (n : Nat) (idx : List Nat) (pk : List ℝ) (aRef b c : ℝ) (hc : c ≠ 0) :
    nCycR n idx (pk.map (c * ·)) (c * aRef) b = nCycR n idx pk aRef b := by
  have : percR (pk.map (c * ·)) (c * aRef) b = percR pk aRef b := by
    unfold percR
    rw [List.map_map]
    apply List.map_congr_left
    intro p _
    simp only [Function.comp, mul_div_mul_left _ _ hc]
  rw [nCycR_eq, nCycR_eq]
  unfold nTotR
  rw [this]

/-! ### the amplitude series -/

theorem cycAmpR_eq (csr : List ℝ) (nCyc b : ℝ) :
    cycAmpR csr nCyc b = (cumsum (csr.map (ampTerm nCyc b))).map (fun s => rpowR s b) := rfl

theorem rpowR_mono (b : ℝ) (hb : 0 ≤ b) (x y : ℝ) (hx : 0 ≤ x) (hxy : x ≤ y) : rpowR x b ≤ rpowR y b :=
  Real.rpow_le_rpow hx hxy hb

theorem ampTerms_nonneg (csr : List ℝ) (nCyc b : ℝ) (hN : 0 < nCyc) : ∀ x ∈ csr.map (ampTerm nCyc b), 0 ≤ x := by
  intro x hx
  obtain ⟨y, _, rfl⟩ := List.mem_map.mp hx
  exact ampTerm_nonneg nCyc b hN y

theorem cycAmpR_pairwise (csr : List ℝ) (nCyc b : ℝ) (hb : 0 < b) (hN : 0 < nCyc) :
    (cycAmpR csr nCyc b).Pairwise (· ≤ ·) := by
  rw [cycAmpR_eq, List.pairwise_map]
  have hnn := cumsum_mem_nonneg _ (ampTerms_nonneg csr nCyc b hN)
  have hpw := cumsum_pairwise _ (ampTerms_nonneg csr nCyc b hN)
  exact hpw.imp_of_mem (fun {x y} hx _ hxy => rpowR_mono b hb.le x y (hnn x hx) hxy)

theorem cycAmpR_nonneg (csr : List ℝ) (nCyc b : ℝ) (hN : 0 < nCyc) : ∀ x ∈ cycAmpR csr nCyc b, 0 ≤ x := by
  intro x hx
  rw [cycAmpR_eq] at hx
  obtain ⟨s, hs, rfl⟩ := List.mem_map.mp hx
  exact Real.rpow_nonneg (cumsum_mem_nonneg _ (ampTerms_nonneg csr nCyc b hN) s hs) b

theorem cycAmpR_getLast (csr : List ℝ) (nCyc b : ℝ) (h : csr ≠ []) :
    (cycAmpR csr nCyc b).getLast? = some (rpowR ((csr.map (ampTerm nCyc b)).sum) b) := by
  rw [cycAmpR_eq, List.getLast?_map, cumsum_getLast? _ (by simpa using h)]
  rfl

/-- `(c·s)^b = c^b · s^b` applied along a list of non-negative sums -/
theorem map_rpow_smul (l : List ℝ) (hl : ∀ s ∈ l, 0 ≤ s) (c b : ℝ) (hc : 0 ≤ c) :
    (l.map (c * ·)).map (fun s => rpowR s b) = (l.map (fun s => rpowR s b)).map (rpowR c b * ·) := by
  rw [List.map_map, List.map_map]
  apply List.map_congr_left
  intro s hs
  simp only [Function.comp, rpowR]
  exact Real.mul_rpow hc (hl s hs)

theorem cycAmpR_smul (csr : List ℝ) (nCyc b c : ℝ) (hb : 0 < b) (hN : 0 < nCyc) (hc : 0 ≤ c) :
    cycAmpR (csr.map (c * ·)) nCyc b = (cycAmpR csr nCyc b).map (c * ·) := by
  rw [cycAmpR_eq, cycAmpR_eq, List.map_map]
  have h1 : (ampTerm nCyc b ∘ fun x => c * x) = fun x => rpowR c (1 / b) * ampTerm nCyc b x := by
    funext x; exact ampTerm_smul nCyc b c hc x
  rw [h1]
  have h2 : csr.map (fun x => rpowR c (1 / b) * ampTerm nCyc b x) =
      (csr.map (ampTerm nCyc b)).map (rpowR c (1 / b) * ·) := by rw [List.map_map]; rfl
  rw [h2, cumsum_smul]
  rw [map_rpow_smul _ (cumsum_mem_nonneg _ (ampTerms_nonneg csr nCyc b hN)) (rpowR c (1 / b)) b
    (Real.rpow_nonneg hc _)]
  rw [rpow_inv_rpow c b hc hb]

theorem cycAmpCombinedR_self (csr : List ℝ) (nCyc b : ℝ) (hN : 0 < nCyc) :
    cycAmpCombinedR csr csr nCyc b = (cycAmpR csr nCyc b).map (rpowR 2 b * ·) := by
  have h0 : cycAmpCombinedR csr csr nCyc b =
      (cumsum (List.zipWith (fun x y => (rpowR (absv x) (1 / b) + rpowR (absv y) (1 / b)) / 2 / nCyc) csr csr)).map
        (fun s => rpowR s b) := rfl
  rw [h0, List.zipWith_self]
  have h1 : csr.map (fun x => (rpowR (absv x) (1 / b) + rpowR (absv x) (1 / b)) / 2 / nCyc) =
      (csr.map (ampTerm nCyc b)).map ((2 : ℝ) * ·) := by
    rw [List.map_map]
    apply List.map_congr_left
    intro x _
    simp only [Function.comp, ampTerm]; ring
  rw [h1, cumsum_smul, cycAmpR_eq,
    map_rpow_smul _ (cumsum_mem_nonneg _ (ampTerms_nonneg csr nCyc b hN)) 2 b (by norm_num)]

theorem gm_self (l : List ℝ) (hl : ∀ x ∈ l, 0 ≤ x) :
    List.zipWith (fun x y => Real.sqrt (x * y)) l l = l := by
  rw [List.zipWith_self]
  conv_rhs => rw [← List.map_id l]
  apply List.map_congr_left
  intro x hx
  exact Real.sqrt_mul_self (hl x hx)

/-! ### mutual inverse -/

theorem sum_percR (pk : List ℝ) (aRef b : ℝ) (ha : 0 < aRef) (hpk : ∀ p ∈ pk, 0 < p) :
    (percR pk aRef b).sum = (pk.map (fun p => rpowR p (1 / b) / 2)).sum / rpowR aRef (1 / b) := by
  induction pk with
  | nil => simp [percR]
  | cons p ps ih =>
    have hp := hpk p (by simp)
    have := ih (fun q hq => hpk q (by simp [hq]))
    simp only [percR, List.map_cons, List.sum_cons] at this ⊢
    rw [this, perc_eq aRef b p ha hp]; ring

theorem sum_halfpow_pos (pk : List ℝ) (b : ℝ) (hpk : ∀ p ∈ pk, 0 < p) (hne : pk ≠ []) :
    0 < (pk.map (fun p => rpowR p (1 / b) / 2)).sum := by
  cases pk with
  | nil => exact absurd rfl hne
  | cons p ps =>
    simp only [List.map_cons, List.sum_cons]
    have h1 : 0 < rpowR p (1 / b) / 2 := by
      have : 0 < p ^ (1 / b) := Real.rpow_pos_of_pos (hpk p (by simp)) _
      unfold rpowR; positivity
    have h2 : 0 ≤ (ps.map (fun p => rpowR p (1 / b) / 2)).sum := by
      apply List.sum_nonneg
      intro x hx
      obtain ⟨q, hq, rfl⟩ := List.mem_map.mp hx
      have : 0 < q ^ (1 / b) := Real.rpow_pos_of_pos (hpk q (by simp [hq])) _
      unfold rpowR; positivity
    linarith

theorem sum_ampTerm_pos_list (pk : List ℝ) (nCyc b : ℝ) (hpk : ∀ p ∈ pk, 0 < p) :
    (pk.map (ampTerm nCyc b)).sum = (pk.map (fun p => rpowR p (1 / b) / 2)).sum / nCyc := by
  induction pk with
  | nil => simp
  | cons p ps ih =>
    have := ih (fun q hq => hpk q (by simp [hq]))
    simp only [List.map_cons, List.sum_cons] at this ⊢
    rw [this]
    unfold ampTerm
    rw [absv_real, abs_of_pos (hpk p (by simp))]; ring

/-- with `N = Σ perc` the summed amplitude terms of the peaks give `a_ref^(1/b)` -/
theorem sum_ampTerm_pk (pk : List ℝ) (aRef b : ℝ) (ha : 0 < aRef)
    (hpk : ∀ p ∈ pk, 0 < p) (hne : pk ≠ []) :
    (pk.map (ampTerm (percR pk aRef b).sum b)).sum = rpowR aRef (1 / b) := by
  rw [sum_ampTerm_pos_list pk _ b hpk, sum_percR pk aRef b ha hpk]
  have hS := sum_halfpow_pos pk b hpk hne
  have hA : 0 < rpowR aRef (1 / b) := Real.rpow_pos_of_pos ha _
  field_simp

/-- with `N = Σ perc` the summed amplitude terms of the peak-only series give `a_ref^(1/b)` -/
theorem sum_ampTerm_inverse (pk csr : List ℝ) (aRef b : ℝ) (hb : 0 < b) (ha : 0 < aRef)
    (hpk : ∀ p ∈ pk, 0 < p) (hne : pk ≠ []) (hcsr : csr.filter (fun x => decide (x ≠ 0)) = pk) :
    (csr.map (ampTerm (percR pk aRef b).sum b)).sum = rpowR aRef (1 / b) := by
  rw [sum_filter_ne_zero _ (ampTerm_zero _ b hb) csr, hcsr, sum_ampTerm_pk pk aRef b ha hpk hne]

theorem percR_sum_pos (pk : List ℝ) (aRef b : ℝ) (ha : 0 < aRef) (hpk : ∀ p ∈ pk, 0 < p) (hne : pk ≠ []) :
    0 < (percR pk aRef b).sum := by
  rw [sum_percR pk aRef b ha hpk]
  exact div_pos (sum_halfpow_pos pk b hpk hne) (Real.rpow_pos_of_pos ha _)

theorem cutOff_zero (tiny m : ℝ) (pk : List ℝ) (hpk : ∀ p ∈ pk, 0 ≤ p) : cutOff tiny 0 m pk = pk := by
  unfold cutOff
  conv_rhs => rw [← List.map_id pk]
  apply List.map_congr_left
  intro p hp
  rw [zero_mul, if_neg (not_lt.mpr (hpk p hp))]; rfl

/-! ### the peak-only series `np.put(zeros, idx, |values[idx]|)` at the level of sums -/

theorem sum_map_set (g : ℝ → ℝ) (l : List ℝ) (i : Nat) (v : ℝ) (h : i < l.length) :
    ((l.set i v).map g).sum = (l.map g).sum - g l[i] + g v := by
  induction l generalizing i with
  | nil => simp at h
  | cons x xs ih =>
    cases i with
    | zero => simp; ring
    | succ j =>
      have hj : j < xs.length := by simpa using h
      simp only [List.set_cons_succ, List.map_cons, List.sum_cons, List.getElem_cons_succ]
      rw [ih j hj]; ring

theorem putIdx_length (base : List ℝ) (idx : List Nat) (ws : List ℝ) :
    (putIdx base idx ws).length = base.length := by
  induction idx generalizing base ws with
  | nil => cases ws <;> simp [putIdx]
  | cons i is ih =>
    cases ws with
    | nil => simp [putIdx]
    | cons w ws' => simp [putIdx, ih]

/-- distinct in-range positions of an all-zero array: the `g`-sum of the result is the `g`-sum of the values put
(`g 0 = 0`) -/
theorem sum_map_putIdx (g : ℝ → ℝ) (base : List ℝ) (idx : List Nat) (ws : List ℝ)
    (hlen : idx.length = ws.length) (hnd : idx.Nodup) (hr : ∀ i ∈ idx, i < base.length)
    (hz : ∀ i ∈ idx, g (base.getD i 0) = 0) :
    ((putIdx base idx ws).map g).sum = (base.map g).sum + (ws.map g).sum := by
  induction idx generalizing base ws with
  | nil =>
    have : ws = [] := by cases ws <;> simp_all
    subst this; simp [putIdx]
  | cons i is ih =>
    cases ws with
    | nil => simp at hlen
    | cons w ws' =>
      have hi : i < base.length := hr i (by simp)
      rw [List.nodup_cons] at hnd
      simp only [putIdx]
      rw [ih (base.set i w) ws' (by simpa using hlen) hnd.2
        (fun j hj => by rw [List.length_set]; exact hr j (by simp [hj])) ?_]
      · rw [sum_map_set g base i w hi]
        have := hz i (by simp)
        rw [List.getD_eq_getElem?_getD, List.getElem?_eq_getElem hi] at this
        simp only [Option.getD_some] at this
        simp only [List.map_cons, List.sum_cons]
        rw [this]; ring
      · intro j hj
        have hne : i ≠ j := fun h => hnd.1 (h ▸ hj)
        have := hz j (by simp [hj])
        rw [List.getD_eq_getElem?_getD] at this ⊢
        rw [List.getElem?_set_ne hne]
        exact this

theorem sum_map_peakOnlyAbs (g : ℝ → ℝ) (hg : g 0 = 0) (vals : List ℝ) (idx : List Nat) (hnd : idx.Nodup)
    (hr : ∀ i ∈ idx, i < vals.length) :
    ((peakOnlyAbs vals idx).map g).sum = ((idx.map (fun i => absv (vals.getD i 0))).map g).sum := by
  unfold peakOnlyAbs
  rw [sum_map_putIdx g _ idx _ (by simp) hnd (by simpa using hr) ?_]
  · have : ((vals.map (fun _ => (0 : ℝ))).map g).sum = 0 := by
      rw [List.map_map]
      apply List.sum_eq_zero
      intro x hx
      obtain ⟨_, _, rfl⟩ := List.mem_map.mp hx
      exact hg
    rw [this, zero_add]
  · intro i hi
    have h := hr i hi
    rw [List.getD_eq_getElem?_getD, List.getElem?_eq_getElem (by simpa using h)]
    simpa using hg

theorem peakOnlyAbs_length (vals : List ℝ) (idx : List Nat) : (peakOnlyAbs vals idx).length = vals.length := by
  simp [peakOnlyAbs, putIdx_length]

end EqsigVerif.Lemmas.PowerLaw
