import exp, sys
S='single.py'; T='fns/time_step.py'
breaking = [
 ('B1 add_constant: + -> -', S, "self.reset_values(self.values + constant)", "self.reset_values(self.values - constant)"),
 ('B2 add_series: == -> !=', S, "if len(series) == self.npts:", "if len(series) != self.npts:"),
 ('B3 add_series: exception class', S, 'raise exceptions.SignalProcessingError("new series has different length to Signal")', 'raise ValueError("new series has different length to Signal")'),
 ('B4 add_signal: dt test dropped', S, "if new_signal.dt == self.dt:", "if new_signal.dt >= self.dt:"),
 ('B5 remove_average: default -1 -> 0', S, "def remove_average(self, section=-1, verbose=-1):", "def remove_average(self, section=0, verbose=-1):"),
 ('B6 remove_average: slice [:s] -> [s:]', S, "average = np.mean(self.values[:section])", "average = np.mean(self.values[section:])"),
 ('B7 butter: low<->high', S, "            filter_type = 'low'\n            cut_off = cut_off[1]", "            filter_type = 'high'\n            cut_off = cut_off[1]"),
 ('B8 butter: picks cut_off[0]', S, "            filter_type = 'low'\n            cut_off = cut_off[1]", "            filter_type = 'low'\n            cut_off = cut_off[0]"),
 ('B9 butter: len != 2 -> 3', S, "if len(cut_off) != 2:", "if len(cut_off) != 3:"),
 ('B10 butter: ndarray not accepted', S, " or isinstance(cut_off, np.ndarray):", ":"),
 ('B11 grid: even 2*int(n/2) -> 2*int(n/2)+1', T, "    t_int = np.arange(len(values))\n    new_npts = factor * len(values)\n    if even:\n        new_npts = 2 * int(new_npts / 2)", "    t_int = np.arange(len(values))\n    new_npts = factor * len(values)\n    if even:\n        new_npts = 2 * int(new_npts / 2) + 1"),
 ('B12 grid: t_db / factor -> * factor', T, "t_db = np.arange(new_npts) / factor", "t_db = np.arange(new_npts) * factor"),
 ('B13 grid: new dt', T, "return acc_interp, dt / factor", "return acc_interp, dt * factor"),
 ('B14 grid: interp xp shifted', T, "t_int = np.arange(len(values))", "t_int = np.arange(len(values) + 1)"),
 ('B15 resample: int(new_npts) -> +1', T, "resample(asig.values, int(new_npts))", "resample(asig.values, int(new_npts) + 1)"),
 ('B16 resample: if even -> if not even', T, "    new_npts = factor * asig.npts\n    if even:", "    new_npts = factor * asig.npts\n    if not even:"),
 ('B17 grid: quotient inverted', T, "    factor = dt / target_dt\n", "    factor = target_dt / dt\n"),
]
harmless = [
 ('H1 commute v + c', S, "self.reset_values(self.values + constant)", "self.reset_values(constant + self.values)"),
 ('H2 introduce temporary', S, "self.reset_values(self.values + constant)", "new = self.values + constant\n        self.reset_values(new)"),
 ('H3 rename temporary average', S, "        average = np.mean(self.values[:section])\n        self.reset_values(self.values - average)\n\n        if verbose:\n            print('removed av.: ', average)", "        av = np.mean(self.values[:section])\n        self.reset_values(self.values - av)"),
 ('H4 commute len test', S, "if len(series) == self.npts:", "if self.npts == len(series):"),
 ('H5 grid: rename temporaries', T, "    t_db = np.arange(new_npts) / factor\n    acc_interp = np.interp(t_db, t_int, values)\n    return acc_interp, dt / factor", "    tt = np.arange(new_npts) / factor\n    out = np.interp(tt, t_int, values)\n    return out, dt / factor"),
 ('H6 grid: commute factor*len', T, "    t_int = np.arange(len(values))\n    new_npts = factor * len(values)", "    t_int = np.arange(len(values))\n    new_npts = len(values) * factor"),
 ('H7 grid: reorder independent', T, "    t_int = np.arange(len(values))\n    new_npts = factor * len(values)\n    if even:\n        new_npts = 2 * int(new_npts / 2)\n", "    new_npts = factor * len(values)\n    if even:\n        new_npts = 2 * int(new_npts / 2)\n    t_int = np.arange(len(values))\n"),
 ('H8 grid: respell 2 -> 2.0 in divisor', T, "    t_int = np.arange(len(values))\n    new_npts = factor * len(values)\n    if even:\n        new_npts = 2 * int(new_npts / 2)", "    t_int = np.arange(len(values))\n    new_npts = factor * len(values)\n    if even:\n        new_npts = 2 * int(new_npts / 2.0)"),
]
exp.run(breaking if sys.argv[1] == 'b' else harmless, ['EqsigVerif.Props.C17Gen', 'EqsigVerif.Props.C14GenInterp'], sys.argv[2])
