#!/usr/bin/env python3
"""experiment driver: apply one edit to a copy of the source, run the translator, build the bridge module(s)"""
import json, os, shutil, subprocess, sys
ROOT = '/tmp/tw_shift'
def run(edits, modules, target):
    out = []
    for name, rel, old, new in edits:
        shutil.rmtree(ROOT + '/src', ignore_errors=True)
        os.makedirs(ROOT + '/src')
        shutil.copytree('/repo/eqsig', ROOT + '/src/eqsig')
        p = ROOT + '/src/eqsig/' + rel
        s = open(p).read()
        assert s.count(old) >= 1, (name, 'pattern not found')
        s = s.replace(old, new, 1)
        open(p, 'w').write(s)
        r = subprocess.run(['python3', ROOT + '/tools/py2lean.py', '--repo', ROOT + '/src', '--out', ROOT + '/lean/EqsigVerif/Gen'], capture_output=True, text=True)
        rep = json.loads(r.stdout.strip().splitlines()[-1])
        unt = [u for u in rep['untranslatable'] if u['target'] == target]
        if unt:
            out.append((name, 'Untranslatable', f"{unt[0]['function']}:{unt[0]['line']}: {unt[0]['construct']}"))
            continue
        b = subprocess.run(['lake', 'build'] + modules, cwd=ROOT + '/lean', capture_output=True, text=True)
        if b.returncode == 0:
            out.append((name, 'BUILD OK', ''))
        else:
            errs = [l for l in b.stdout.splitlines() if l.startswith('error:')][:2]
            out.append((name, 'BUILD FAILS', ' | '.join(e[:150] for e in errs)))
    subprocess.run(['python3', ROOT + '/tools/py2lean.py', '--repo', '/repo', '--out', ROOT + '/lean/EqsigVerif/Gen'], capture_output=True, text=True)
    for o in out:
        print('%-34s %-15s %s' % o)
