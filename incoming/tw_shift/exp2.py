import exp, sys
M='multiple.py'; A='fns/average.py'
breaking = [
 ('B1 combine: cos<->sin', M, "acc_sig_ns.values * np.cos(off_rad) + acc_sig_we.values * np.sin(off_rad)", "acc_sig_ns.values * np.sin(off_rad) + acc_sig_we.values * np.cos(off_rad)"),
 ('B2 combine: dt of we', M, "new_sig = AccSignal(combo, acc_sig_ns.dt)", "new_sig = AccSignal(combo, acc_sig_we.dt)"),
 ('B3 rotated: 180 -> 360', M, "180. - angle_off_ns", "360. - angle_off_ns"),
 ('B4 rotated: assert != ', M, "assert acc_sig_ns.dt == acc_sig_we.dt", "assert acc_sig_ns.dt != acc_sig_we.dt"),
 ('B5 section avg: slice swapped', A, "series.values[s_index:e_index]", "series.values[e_index:s_index]"),
 ('B6 same_start: default end 1->2', M, "end = kwargs.get('end', 1)", "end = kwargs.get('end', 2)"),
 ('B7 same_start: sign', M, "diff = slave_average - master_average", "diff = master_average - slave_average"),
 ('B8 same_start: i != -> ==', M, "            if i != self.master_index:\n                slave_signal", "            if i == self.master_index:\n                slave_signal"),
 ('B9 time_match: < -> <=', M, "                    if diff < min_diff:\n                        min_diff = diff\n                        min_ind = i + 0", "                    if diff <= min_diff:\n                        min_diff = diff\n                        min_ind = i + 0"),
 ('B10 time_match: slice index', M, "squares = (om[i:-steps + i] - bm[0:-steps]) ** 2", "squares = (om[i + 1:-steps + i] - bm[0:-steps]) ** 2"),
 ('B11 time_match: loop bound', M, "                for i in range(steps):\n                    squares = (bm", "                for i in range(steps + 1):\n                    squares = (bm"),
 ('B12 time_match: -i -> i', M, "min_ind = -i - 0", "min_ind = i - 0"),
 ('B13 time_match: pad with om[-1]', M, "m_temp = [om[0]] * abs(min_ind) + list(om[:min_ind])", "m_temp = [om[-1]] * abs(min_ind) + list(om[:min_ind])"),
 ('B14 time_match: min->max length', M, "length_check = min(self.signal_by_index(0).npts, self.signal_by_index(1).npts)", "length_check = max(self.signal_by_index(0).npts, self.signal_by_index(1).npts)"),
 ('B15 time_match: drop term steps', M, "squares = (bm[0:-steps] - om[0:-steps]) ** 2", "squares = (bm[0:-steps] - om[0:]) ** 2"),
 ('B16 time_match: default steps', M, "steps = kwargs.get('steps', 10)", "steps = kwargs.get('steps', 12)"),
]
harmless = [
 ('H1 rename temporaries (combine)', M, "    off_rad = np.radians(angle)\n    combo = acc_sig_ns.values * np.cos(off_rad) + acc_sig_we.values * np.sin(off_rad)\n    new_sig = AccSignal(combo, acc_sig_ns.dt)\n    return new_sig", "    r = np.radians(angle)\n    c = acc_sig_ns.values * np.cos(r) + acc_sig_we.values * np.sin(r)\n    return AccSignal(c, acc_sig_ns.dt)"),
 ('H2 commute a*b (combine)', M, "acc_sig_ns.values * np.cos(off_rad) + acc_sig_we.values * np.sin(off_rad)", "np.cos(off_rad) * acc_sig_ns.values + np.sin(off_rad) * acc_sig_we.values"),
 ('H3 remove temporary diff', M, "                diff = slave_average - master_average\n                if verbose:\n                    print('Same start the records')\n                    print('old difference in starts: ', diff)\n                slave_signal.reset_values(slave_signal.values - diff)", "                slave_signal.reset_values(slave_signal.values - (slave_average - master_average))"),
 ('H4 rename temps time_match', M, "                    diff = sum(squares)\n                    if verbose:\n                        print('ind: ', i, ' diff: ', diff)\n                    if diff < min_diff:\n                        min_diff = diff\n                        min_ind = i + 0", "                    dd = sum(squares)\n                    if dd < min_diff:\n                        min_diff = dd\n                        min_ind = i + 0"),
 ('H5 respell i + 0 -> i', M, "min_ind = i + 0", "min_ind = i"),
 ('H6 commute -steps + i', M, "squares = (om[i:-steps + i] - bm[0:-steps]) ** 2", "squares = (om[i:i - steps] - bm[0:-steps]) ** 2"),
 ('H7 introduce temp in section avg', A, "    section_average = np.mean(series.values[s_index:e_index])\n    return section_average", "    vals = series.values\n    return np.mean(vals[s_index:e_index])"),
 ('H8 respell literal 180. -> 180.0', M, "180. - angle_off_ns", "180.0 - angle_off_ns"),
]
exp.run(breaking if sys.argv[1] == 'b' else harmless, ['EqsigVerif.Props.C18Gen'], 'gen_multiple')
