import eqsig.loader as L, traceback, warnings
warnings.simplefilter('ignore')
cases = [('empty file', ""), ('label only', "lab"), ('label + newline', "lab\n"), ('header only (no label line)', "2 0.01"),
         ('label, header', "lab\n2 0.01"), ('label, header, blank line', "lab\n2 0.01\n\n"), ('label, tab line', "lab\n\t\n"),
         ('label, blank, tab', "lab\n\n\t\n"), ('label, "1 x #<tab>"', "lab\n1 x #\t\n"), ('label, "1 2 #<tab>"', "lab\n1 2 #\t\n"),
         ('label, tab line, one row', "lab\n\t\n1.0\n"), ('label, one-token header, bad cell', "l\nonly\nabc"),
         ('label, one-token header, good cell', "l\nonly\n1.5"), ('label, header, bad cell', "l\n1 0.5\nabc"), ('label, bad dt, good cell', "l\n1 x\n2.5")]
for name, txt in cases:
    p = '/tmp/tw_rest/probe_y.txt'
    open(p, 'w').write(txt)
    try:
        r = L.load_values_and_dt(p)
        print(f"{name!r:45} {txt!r:22} -> ok {r[0].tolist()} dt={r[1]}")
    except Exception as e:
        tb = traceback.extract_tb(e.__traceback__)
        ln = [f.lineno for f in tb if f.name == 'load_values_and_dt'][-1]
        print(f"{name!r:45} {txt!r:22} -> {type(e).__name__} (loader.py line {ln})")
