GEN = ['gen_stockwell_fns']
MODULE = ['EqsigVerif.Props.C15Gen']
K = 'stockwell.py'
import ast as _ast
_src = open('/repo/eqsig/stockwell.py').read()
_fn = [n for n in _ast.parse(_src).body if isinstance(n, _ast.FunctionDef) and n.name == 'transform'][0]
T = _ast.get_source_segment(_src, _fn)
def t(old, new):
    assert old in T
    return (T, T.replace(old, new))
EDITS = [
 ('gg-denominator', K, "f_half = np.arange(0, n_d2 + 1, 1) / (2 * n_d2)", "f_half = np.arange(0, n_d2 + 1, 1) / (n_d2)"),
 ('gg-range', K, "f_half = np.arange(0, n_d2 + 1, 1) / (2 * n_d2)", "f_half = np.arange(0, n_d2, 1) / (2 * n_d2)"),
 ('gg-slice', K, "np.flipud(-f_half[1:-1])", "np.flipud(-f_half[1:])"),
 ('gg-no-flip', K, "np.flipud(-f_half[1:-1])", "-f_half[1:-1]"),
 ('gg-no-neg', K, "np.flipud(-f_half[1:-1])", "np.flipud(f_half[1:-1])"),
 ('gg-2pi', K, "p = 2 * np.pi * np.outer(f, 1. / f_half[1:])", "p = np.pi * np.outer(f, 1. / f_half[1:])"),
 ('gg-outer-swap', K, "np.outer(f, 1. / f_half[1:])", "np.outer(1. / f_half[1:], f)"),
 ('gg-fhalf-from0', K, "np.outer(f, 1. / f_half[1:])", "np.outer(f, 1. / f_half[2:])"),
 ('gg-half', K, "return np.exp(-p ** 2 / 2).transpose()", "return np.exp(-p ** 2 / 4).transpose()"),
 ('gg-sign', K, "return np.exp(-p ** 2 / 2).transpose()", "return np.exp(p ** 2 / 2).transpose()"),
 ('gg-no-transpose', K, "return np.exp(-p ** 2 / 2).transpose()", "return np.exp(-p ** 2 / 2)"),
 ('tr-nd2', K) + t("n_d2 = int(len(acc) / 2)", "n_d2 = int(len(acc) / 2) + 1"),
 ('tr-nfactor', K) + t("n_factor = 2 * n_d2", "n_factor = 2 * n_d2 + 1"),
 ('tr-fft-len', K) + t("fa = np.fft.fft(acc_db, n_factor)", "fa = np.fft.fft(acc_db, n_d2)"),
 ('tr-conj-range', K) + t("np.conj(fa[:n_d2 + 1])", "np.conj(fa[:n_d2])"),
 ('tr-no-conj', K) + t("toeplitz(np.conj(fa[:n_d2 + 1]), fa)", "toeplitz(fa[:n_d2 + 1], fa)"),
 ('tr-toeplitz-swap', K) + t("toeplitz(np.conj(fa[:n_d2 + 1]), fa)", "toeplitz(fa, np.conj(fa[:n_d2 + 1]))"),
 ('tr-rows', K) + t("diag_con = diag_con[1:n_d2 + 1, :]", "diag_con = diag_con[0:n_d2, :]"),
 ('tr-rows2', K) + t("diag_con = diag_con[1:n_d2 + 1, :]", "diag_con = diag_con[1:n_d2, :]"),
 ('tr-no-flip', K) + t("stock = np.flipud(np.fft.ifft(diag_con * gaussian, axis=1))", "stock = np.fft.ifft(diag_con * gaussian, axis=1)"),
 ('tr-axis0', K) + t("np.fft.ifft(diag_con * gaussian, axis=1)", "np.fft.ifft(diag_con * gaussian, axis=0)"),
 ('tr-fft-for-ifft', K) + t("np.fft.ifft(diag_con * gaussian, axis=1)", "np.fft.fft(diag_con * gaussian, axis=1)"),
 ('tr-no-window', K) + t("np.fft.ifft(diag_con * gaussian, axis=1)", "np.fft.ifft(diag_con, axis=1)"),
 ('ts-scipy-nd2', K, "    fa = fft(acc_db, n_factor, overwrite_x=True)", "    fa = fft(acc_db, n_factor + 2, overwrite_x=True)"),
 ('it-axis', K, "    ss = np.sum(stock, axis=1)\n    n = 2 * len(ss)", "    ss = np.sum(stock, axis=0)\n    n = 2 * len(ss)"),
 ('it-n', K, "    n = 2 * len(ss)\n", "    n = 2 * len(ss) + 2\n"),
 ('it-store1-lo', K, "fas_ss[1:n // 2] = np.flip(np.conj(ss[1:]), axis=0)", "fas_ss[0:n // 2 - 1] = np.flip(np.conj(ss[1:]), axis=0)"),
 ('it-store1-noflip', K, "fas_ss[1:n // 2] = np.flip(np.conj(ss[1:]), axis=0)", "fas_ss[1:n // 2] = np.conj(ss[1:])"),
 ('it-store1-noconj', K, "fas_ss[1:n // 2] = np.flip(np.conj(ss[1:]), axis=0)", "fas_ss[1:n // 2] = np.flip(ss[1:], axis=0)"),
 ('it-store2-lo', K, "fas_ss[n // 2 + 1:] = ss[1:]", "fas_ss[n // 2:] = ss"),
 ('it-store2-conj', K, "fas_ss[n // 2 + 1:] = ss[1:]", "fas_ss[n // 2 + 1:] = np.conj(ss[1:])"),
 ('it-fft', K, "acc_new = np.fft.ifft(fas_ss)", "acc_new = np.fft.fft(fas_ss, len(fas_ss))"),
 ('it-imag', K, "return np.real(acc_new[:npts])", "return np.imag(acc_new[:npts])"),
 ('it-npts', K, "return np.real(acc_new[:npts])", "return np.real(acc_new[:npts - 1])"),
 ('mf-arange', K, "def get_max_tifq_vals_freq(tifq_values, dt):\n    points = len(tifq_values)\n    freqs = np.arange(1, points + 1) / (2 * points * dt)", "def get_max_tifq_vals_freq(tifq_values, dt):\n    points = len(tifq_values)\n    freqs = np.arange(0, points) / (2 * points * dt)"),
 ('mf-two', K, "def get_max_tifq_vals_freq(tifq_values, dt):\n    points = len(tifq_values)\n    freqs = np.arange(1, points + 1) / (2 * points * dt)", "def get_max_tifq_vals_freq(tifq_values, dt):\n    points = len(tifq_values)\n    freqs = np.arange(1, points + 1) / (points * dt)"),
 ('mf-no-flip', K, "    freqs = np.flipud(freqs)\n    indy_max = np.argmax(abs(tifq_values), axis=0)", "    indy_max = np.argmax(abs(tifq_values), axis=0)"),
 ('mf-axis', K, "indy_max = np.argmax(abs(tifq_values), axis=0)", "indy_max = np.argmax(abs(tifq_values), axis=1)"),
 ('mf-no-abs', K, "indy_max = np.argmax(abs(tifq_values), axis=0)", "indy_max = np.argmax(tifq_values, axis=0)"),
 ('ms-not', K, "def get_max_stockwell_freq(asig):\n    if not hasattr(asig, \"swtf\"):", "def get_max_stockwell_freq(asig):\n    if hasattr(asig, \"swtf\"):"),
 ('ms-two', K, "    points = len(asig.swtf)\n    freqs = np.arange(1, points + 1) / (2 * points * asig.dt)\n    freqs = np.flipud(freqs)\n    indy_max", "    points = len(asig.swtf)\n    freqs = np.arange(1, points + 1) / (4 * points * asig.dt)\n    freqs = np.flipud(freqs)\n    indy_max"),
 ('sf-half', K, "return (len(asig.swtf) / 2 - np.arange(0, int(len(asig.swtf) / 2))) / (len(asig.values) * asig.dt)", "return (len(asig.swtf) - np.arange(0, int(len(asig.swtf) / 2))) / (len(asig.values) * asig.dt)"),
 ('sf-den', K, "return (len(asig.swtf) / 2 - np.arange(0, int(len(asig.swtf) / 2))) / (len(asig.values) * asig.dt)", "return (len(asig.swtf) / 2 - np.arange(0, int(len(asig.swtf) / 2))) / (len(asig.swtf) * asig.dt)"),
 ('st-two', K, "return np.arange(0, len(asig.swtf[0])) * asig.dt / 2", "return np.arange(0, len(asig.swtf[0])) * asig.dt"),
 ('st-row', K, "return np.arange(0, len(asig.swtf[0])) * asig.dt / 2", "return np.arange(0, len(asig.swtf)) * asig.dt / 2"),
]
