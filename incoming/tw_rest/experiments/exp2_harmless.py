GEN = ['gen_mutators2']
MODULE = ['EqsigVerif.Props.C17Gen2']
S, G = 'single.py', 'fns/generic.py'
EDITS = [
 ('ra-rename-mot', S, "mot", "orig", 'all'),
 ('ra-rename-cc', S, "cc1", "lo", 'all'),
 ('ra-rename-i', S, "        for i in range(len(mot)):\n            if i < width / 2:\n                cc = i + int(width / 2) + 1\n                self._values[i] = np.mean(mot[:cc])\n            elif i > len(mot) - width / 2:\n                cc = i - int(width / 2)\n                self._values[i] = np.mean(mot[cc:])\n            else:\n                cc1 = i - int(width / 2)\n                cc2 = i + int(width / 2) + 1\n                self._values[i] = np.mean(mot[cc1:cc2])",
  "        for k in range(len(mot)):\n            if k < width / 2:\n                cc = k + int(width / 2) + 1\n                self._values[k] = np.mean(mot[:cc])\n            elif k > len(mot) - width / 2:\n                cc = k - int(width / 2)\n                self._values[k] = np.mean(mot[cc:])\n            else:\n                cc1 = k - int(width / 2)\n                cc2 = k + int(width / 2) + 1\n                self._values[k] = np.mean(mot[cc1:cc2])"),
 ('ra-inline-cc', S, "                cc = i - int(width / 2)\n                self._values[i] = np.mean(mot[cc:])", "                self._values[i] = np.mean(mot[i - int(width / 2):])"),
 ('ra-floordiv', S, "                cc = i - int(width / 2)\n", "                cc = i - width // 2\n", 'first'),
 ('ra-temp-h', S, "        for i in range(len(mot)):\n            if i < width / 2:\n                cc = i + int(width / 2) + 1", "        for i in range(len(mot)):\n            if i < width / 2:\n                h = int(width / 2)\n                cc = i + h + 1", 'first'),
 ('ra-reorder-cc', S, "                cc1 = i - int(width / 2)\n                cc2 = i + int(width / 2) + 1", "                cc2 = i + int(width / 2) + 1\n                cc1 = i - int(width / 2)", 'first'),
 ('ra-commute', S, "                cc = i + int(width / 2) + 1\n", "                cc = int(width / 2) + i + 1\n", 'first'),
 ('ra-2.0', S, "            if i < width / 2:", "            if i < width / 2.0:", 'first'),
 ('ra-gt-flip', S, "elif i > len(mot) - width / 2:", "elif len(mot) - width / 2 < i:", 'first'),
 ('rp-rename', S, "y_cor", "corr", 'all'),
 ('rp-inline-mods', S, "            mods = x ** (poly_fit - co)\n            y_cor += cofs[co] * mods\n\n        self.reset", "            y_cor += cofs[co] * x ** (poly_fit - co)\n\n        self.reset"),
 ('rp-aug', S, "            y_cor += cofs[co] * mods\n\n        self.reset", "            y_cor = y_cor + cofs[co] * mods\n\n        self.reset"),
 ('rp-commute', S, "            y_cor += cofs[co] * mods\n\n        self.reset", "            y_cor += mods * cofs[co]\n\n        self.reset"),
 ('rp-lit', S, "x = np.linspace(0, 1.0, self.npts)", "x = np.linspace(0, 1., self.npts)"),
 ('rp-len', S, "x = np.linspace(0, 1.0, self.npts)", "x = np.linspace(0, 1.0, len(self.values))"),
 ('bp-rename', S, "diff_len", "extra", 'all'),
 ('bp-inline-flen', S, "                s_len = diff_len\n                f_len = s_len + org_len", "                s_len = diff_len\n                f_len = diff_len + org_len"),
 ('bp-hoist-flen', S, "            else:\n                s_len = int(diff_len / 2)\n                f_len = s_len + org_len\n", "            else:\n                s_len = int(diff_len / 2)\n                f_len = org_len + s_len\n"),
 ('bp-reorder', S, "            end_value = np.mean(mote[-gibbs_range:])\n            start_value = np.mean(mote[:gibbs_range])", "            start_value = np.mean(mote[:gibbs_range])\n            end_value = np.mean(mote[-gibbs_range:])"),
 ('bp-commute', S, "temp = start_value * np.ones(new_len)", "temp = np.ones(new_len) * start_value"),
 ('bp-floordiv', S, "s_len = int(diff_len / 2)", "s_len = diff_len // 2"),
 ('bp-orglen', S, "            diff_len = new_len - org_len", "            diff_len = new_len - len(mote)"),
]
