#!/usr/bin/env python3
"""Experiment runner: one edit at a time on a copy of the source; translator (plug-in only) + lake build of the bridge module.
usage: exp.py <edit-list.py> ; the edit list defines EDITS = [(label, relative file, old, new), …], GEN = generator function name,
MODULE = bridge module, and optionally KIND ('break' | 'harmless')."""
import importlib.util, os, shutil, subprocess, sys, json
ROOT = '/tmp/tw_rest'
SRC = ROOT + '/src'
LEAN = ROOT + '/exp/lean'
sys.path.insert(0, ROOT + '/tools')
import py2lean_x_rest as R

def main():
    spec = importlib.util.spec_from_file_location('edits', sys.argv[1])
    m = importlib.util.module_from_spec(spec); spec.loader.exec_module(m)
    if not os.path.exists(LEAN):
        shutil.copytree(ROOT + '/lean', LEAN, symlinks=True)
    for sub in ('Props', 'Prelude', 'Lemmas', 'Model', 'GenGolden'):
        for f in os.listdir(f'{ROOT}/lean/EqsigVerif/{sub}'):
            a, b = f'{ROOT}/lean/EqsigVerif/{sub}/{f}', f'{LEAN}/EqsigVerif/{sub}/{f}'
            if os.path.isfile(a) and (not os.path.exists(b) or open(a).read() != open(b).read()):
                shutil.copy(a, b)
    gens = [getattr(R, g) for g in m.GEN]
    base = {}
    for g in gens:
        base.update(g('/repo', 'Gen'))
    results = []
    only = sys.argv[2:] 
    for ed in m.EDITS:
        label, rel, old, new = ed[:4]
        every = len(ed) > 4 and ed[4] == 'all'
        firstonly = len(ed) > 4 and ed[4] == 'first'
        if only and label not in only:
            continue
        shutil.rmtree(SRC, ignore_errors=True)
        shutil.copytree('/repo/eqsig', SRC + '/eqsig')
        p = f'{SRC}/eqsig/{rel}'
        s = open(p).read()
        if s.count(old) != 1 and not ((every or firstonly) and s.count(old) > 1):
            results.append((label, f'EDIT NOT APPLICABLE ({s.count(old)} matches)')); print(results[-1], flush=True); continue
        open(p, 'w').write(s.replace(old, new, 1) if firstonly else s.replace(old, new))
        try:
            files = {}
            for g in gens:
                files.update(g(SRC, 'Gen'))
        except Exception as u:
            if type(u).__name__ != 'Untranslatable':
                raise
            results.append((label, f'U  Untranslatable: {u}')); print(results[-1], flush=True); continue
        same = all(files[k] == base[k] for k in files)
        for k, t in files.items():
            open(f'{LEAN}/EqsigVerif/Gen/{k}', 'w').write(t)
        r = subprocess.run(['lake', 'build'] + m.MODULE, cwd=LEAN, capture_output=True, text=True)
        ok = r.returncode == 0
        err = ''
        if not ok:
            for line in r.stdout.splitlines():
                if line.startswith('error:') and 'Lean exited' not in line and 'build failed' not in line:
                    err = line[:160]; break
        results.append((label, ('identical text, ' if same else 'text differs, ') + ('bridge PROVES' if ok else 'F  bridge build FAILS: ' + err)))
        print(results[-1], flush=True)
    for k, t in base.items():
        open(f'{LEAN}/EqsigVerif/Gen/{k}', 'w').write(t)
    print(json.dumps(results, indent=1, ensure_ascii=False))

main()
