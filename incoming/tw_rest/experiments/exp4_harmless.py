GEN = ['gen_stockwell_fns']
MODULE = ['EqsigVerif.Props.C15Gen']
K = 'stockwell.py'
import ast as _ast
_src = open('/repo/eqsig/stockwell.py').read()
_fn = [n for n in _ast.parse(_src).body if isinstance(n, _ast.FunctionDef) and n.name == 'transform'][0]
T = _ast.get_source_segment(_src, _fn)
def t(old, new):
    assert old in T
    return (T, T.replace(old, new))
EDITS = [
 ('gg-rename', K, "f_half", "fh", 'all'),
 ('gg-arange2', K, "f_half = np.arange(0, n_d2 + 1, 1) / (2 * n_d2)", "f_half = np.arange(0, n_d2 + 1) / (2 * n_d2)"),
 ('gg-lit', K, "np.outer(f, 1. / f_half[1:])", "np.outer(f, 1.0 / f_half[1:])"),
 ('gg-temp', K, "    p = 2 * np.pi * np.outer(f, 1. / f_half[1:])", "    inv = 1. / f_half[1:]\n    p = 2 * np.pi * np.outer(f, inv)"),
 ('gg-commute', K, "    p = 2 * np.pi * np.outer(f, 1. / f_half[1:])", "    p = np.pi * 2 * np.outer(f, 1. / f_half[1:])"),
 ('gg-list-concat', K, "f = np.concatenate((f_half, np.flipud(-f_half[1:-1])))", "f = np.concatenate([f_half, np.flipud(-f_half[1:-1])])"),
 ('gg-pp', K, "return np.exp(-p ** 2 / 2).transpose()", "return np.exp(-(p * p) / 2).transpose()"),
 ('tr-rename', K) + t("diag_con", "dc"),
 ('tr-no-accdb', K) + (T, T.replace("    acc_db = acc\n", "").replace("np.fft.fft(acc_db, n_factor)", "np.fft.fft(acc, n_factor)")),
 ('tr-floordiv', K) + t("n_d2 = int(len(acc) / 2)", "n_d2 = len(acc) // 2"),
 ('tr-inline-nfactor', K) + t("fa = np.fft.fft(acc_db, n_factor)", "fa = np.fft.fft(acc_db, 2 * n_d2)"),
 ('tr-reorder', K) + t("    gaussian = generate_gaussian(n_d2)\n\n    fa = np.fft.fft(acc_db, n_factor)\n", "    fa = np.fft.fft(acc_db, n_factor)\n    gaussian = generate_gaussian(n_d2)\n"),
 ('tr-temp', K) + t("    stock = np.flipud(np.fft.ifft(diag_con * gaussian, axis=1))", "    prod = diag_con * gaussian\n    stock = np.flipud(np.fft.ifft(prod, axis=1))"),
 ('tr-commute', K) + t("n_factor = 2 * n_d2", "n_factor = n_d2 * 2"),
 ('tr-return-inline', K) + t("    stock = np.flipud(np.fft.ifft(diag_con * gaussian, axis=1))\n\n    return stock", "    return np.flipud(np.fft.ifft(diag_con * gaussian, axis=1))"),
 ('it-rename', K, "fas_ss", "spec", 'all'),
 ('it-n', K, "    fas_ss = np.zeros(2 * len(ss), dtype=complex)", "    fas_ss = np.zeros(n, dtype=complex)"),
 ('it-len', K, "    fas_ss[1:n // 2] = np.flip", "    fas_ss[1:len(ss)] = np.flip"),
 ('it-flipud', K, "np.flip(np.conj(ss[1:]), axis=0)", "np.flipud(np.conj(ss[1:]))"),
 ('it-reorder', K, "    acc_new = np.fft.ifft(fas_ss)\n    npts = int(np.ceil(2 ** (np.log(n) / np.log(2))))\n", "    npts = int(np.ceil(2 ** (np.log(n) / np.log(2))))\n    acc_new = np.fft.ifft(fas_ss)\n"),
 ('mf-rename', K, "indy_max", "imax", 'all'),
 ('mf-inline', K, "    max_f = np.take(freqs, indy_max)\n    return max_f\n\n\ndef plot_max", "    return np.take(freqs, indy_max)\n\n\ndef plot_max"),
 ('mf-npabs', K, "def get_max_tifq_vals_freq(tifq_values, dt):\n    points = len(tifq_values)\n    freqs = np.arange(1, points + 1) / (2 * points * dt)\n    freqs = np.flipud(freqs)\n    indy_max = np.argmax(abs(tifq_values), axis=0)", "def get_max_tifq_vals_freq(tifq_values, dt):\n    points = len(tifq_values)\n    freqs = np.arange(1, points + 1) / (2 * points * dt)\n    freqs = np.flipud(freqs)\n    indy_max = np.argmax(np.abs(tifq_values), axis=0)"),
 ('mf-one-stmt', K, "def get_max_tifq_vals_freq(tifq_values, dt):\n    points = len(tifq_values)\n    freqs = np.arange(1, points + 1) / (2 * points * dt)\n    freqs = np.flipud(freqs)\n", "def get_max_tifq_vals_freq(tifq_values, dt):\n    points = len(tifq_values)\n    freqs = np.flipud(np.arange(1, points + 1) / (2 * points * dt))\n"),
 ('st-commute', K, "return np.arange(0, len(asig.swtf[0])) * asig.dt / 2", "return asig.dt * np.arange(0, len(asig.swtf[0])) / 2"),
]
