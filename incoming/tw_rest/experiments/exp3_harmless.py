GEN = ['gen_loader_fns']
MODULE = ['EqsigVerif.Props.C16GenFns']
L = 'loader.py'
EDITS = [
 ('sv-rename-para', L, "para", "lines", 'all'),
 ('sv-rename-ofile', L, "ofile", "fh", 'all'),
 ('sv-rename-i', L, "    for i in range(len(values)):\n        para.append(\"%.6f\" % values[i])", "    for k in range(len(values)):\n        para.append(\"%.6f\" % values[k])"),
 ('sv-quote', L, 'ofile = open(ffp, "w")', "ofile = open(ffp, 'w')"),
 ('ld-rename-ifile', L, "ifile", "fh", 'all'),
 ('ld-rename-data', L, "data", "raw", 'all'),
 ('ld-temp', L, "    try:\n        data = np.genfromtxt(ffp, skip_header=1, delimiter=\",\", names=True, usecols=0)\n        with open(ffp) as ifile:\n            dt = float(ifile.read().splitlines()[1].split()[1])",
               "    try:\n        data = np.genfromtxt(ffp, skip_header=1, delimiter=\",\", names=True, usecols=0)\n        with open(ffp) as ifile:\n            header = ifile.read().splitlines()[1]\n            dt = float(header.split()[1])"),
 ('ld-kw-order', L, 'np.genfromtxt(ffp, skip_header=1, delimiter=",", names=True, usecols=0)', 'np.genfromtxt(ffp, delimiter=",", skip_header=1, usecols=0, names=True)'),
 ('ld-return-temp', L, "    values = np.atleast_1d(data.astype(float))\n    return values, dt", "    vals = np.atleast_1d(data.astype(float))\n    return vals, dt"),
 ('lsig-rename', L, "    vals, dt = load_values_and_dt(ffp)\n    return Signal(vals * m, dt)", "    v, step = load_values_and_dt(ffp)\n    return Signal(v * m, step)"),
 ('lsig-temp', L, "    return Signal(vals * m, dt)", "    scaled = vals * m\n    return Signal(scaled, dt)"),
 ('lsig-lit', L, "def load_sig(ffp, m=1.0):", "def load_sig(ffp, m=1.):"),
 ('lsig-commute', L, "    return Signal(vals * m, dt)", "    return Signal(m * vals, dt)"),
 ('lasig-rename-a', L, "        a = open(ffp)\n        label = a.read().splitlines()[0]\n        a.close()", "        fh = open(ffp)\n        label = fh.read().splitlines()[0]\n        fh.close()"),
 ('lasig-quote', L, "        label = 'm1'", '        label = "m1"'),
 ('lasig-reorder', L, "    vals, dt = load_values_and_dt(ffp)\n    if load_label:\n        a = open(ffp)\n        label = a.read().splitlines()[0]\n        a.close()\n    else:\n        label = 'm1'\n",
                      "    if load_label:\n        a = open(ffp)\n        label = a.read().splitlines()[0]\n        a.close()\n    else:\n        label = 'm1'\n    vals, dt = load_values_and_dt(ffp)\n"),
 ('lsignal-else', L, '    elif astype == "acc_sig":\n        return AccSignal(vals, dt)', '    elif astype == "acc_sig":\n        return AccSignal(vals, dt)\n    else:\n        return None'),
 ('lsignal-quote', L, 'if astype == "signal":', "if astype == 'signal':"),
]
