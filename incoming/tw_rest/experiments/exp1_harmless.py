GEN = ['gen_generic_fns2']
MODULE = ['EqsigVerif.Props.C20GenFns2']
G, A, D = 'fns/generic.py', 'fns/average.py', 'design_spectra.py'
EDITS = [
 ('il-rename-inds', G, "    inds = np.searchsorted(x, x0, side='right') - 1\n    if is_scalar:\n        return y[inds][0]\n    return y[inds]",
  "    kk = np.searchsorted(x, x0, side='right') - 1\n    if is_scalar:\n        return y[kk][0]\n    return y[kk]"),
 ('il-temp', G, "    inds = np.searchsorted(x, x0, side='right') - 1", "    pos = np.searchsorted(x, x0, side='right')\n    inds = pos - 1"),
 ('il-else-return', G, "    if is_scalar:\n        return y[inds][0]\n    return y[inds]", "    if is_scalar:\n        return y[inds][0]\n    else:\n        return y[inds]"),
 ('il-le', G, "assert min(x0) >= x[0]", "assert x[0] <= min(x0)"),
 ('i2-rename', G, "denom_adj", "dd", 'all'),
 ('i2-inline-denom', G, "    denom = (a1 - a0)\n    denom_adj = np.clip(denom, 1e-10, None)", "    denom = a1 - a0\n    denom_adj = np.clip(a1 - a0, 1e-10, None)"),
 ('i2-reorder', G, "    f0 = f[ind0]\n    f1 = f[ind1]\n    a0 = xf[ind0]\n    a1 = xf[ind1]", "    a0 = xf[ind0]\n    a1 = xf[ind1]\n    f0 = f[ind0]\n    f1 = f[ind1]"),
 ('i2-lit', G, "1e-10", "1.0e-10"),
 ('i2-lt', G, "np.where(denom > 0,", "np.where(0 < denom,"),
 ('i2-commute', G, "return s1[:, np.newaxis] * f0 + s0[:, np.newaxis] * f1", "return f0 * s1[:, np.newaxis] + f1 * s0[:, np.newaxis]"),
 ('i2-commute-sum', G, "return s1[:, np.newaxis] * f0 + s0[:, np.newaxis] * f1", "return s0[:, np.newaxis] * f1 + s1[:, np.newaxis] * f0"),
 ('se-rename', A, "pre_mean", "mu_left", 'all'),
 ('se-npts', A, "(npts - pre_n)", "(len(values) - pre_n)"),
 ('se-reorder', A, "    pre_n = np.arange(1, len(values) + 1)\n    post_n = np.arange(len(values), 0, -1)", "    post_n = np.arange(len(values), 0, -1)\n    pre_n = np.arange(1, len(values) + 1)"),
 ('se-commute', A, "err[:-1] = err_post[1:] + err_pre[:-1]", "err[:-1] = err_pre[:-1] + err_post[1:]"),
 ('se-commute-10', A, "np.where(pre_mean < post_mean, max_err * 10, err)", "np.where(pre_mean < post_mean, 10 * max_err, err)"),
 ('se-gt-flip', A, "np.where(pre_mean > post_mean, max_err * 10, err)", "np.where(post_mean < pre_mean, max_err * 10, err)"),
 ('se-elif', A, "    if dir == 'up':", "    elif dir == 'up':"),
 ('te-lit', D, "gravity = 9.81", "gravity = 9.810"),
 ('te-rename', D, "gravity", "grav", 'all'),
 ('te-inline-tc', D, "        time = t_c * displacement / d_c", "        time = 3.0 * displacement / d_c"),
 ('te-commute', D, "        time = t_c * displacement / d_c", "        time = displacement * t_c / d_c"),
 ('te-lt', D, "if displacement > d_c:", "if d_c < displacement:"),
]
