#!/usr/bin/env python3
"""experiments 1 (breaking edits) and 2 (harmless rewrites) for tools/py2lean_x_freq2.py.
usage: python3 experiments/exp_freq2.py [break|harmless]   (run inside the PRIVATE copy; writes lean/EqsigVerif/Gen of the copy)"""
import os, shutil, subprocess, sys, json
ROOT = os.path.abspath(os.path.join(os.path.dirname(__file__), '..'))
SRC = '/tmp/tw_freq2/src'
sys.path.insert(0, os.path.join(ROOT, 'tools'))
import py2lean_x_freq2 as P
GEN = os.path.join(ROOT, 'lean', 'EqsigVerif', 'Gen')
MODS = ['EqsigVerif.Props.C06GenMoments', 'EqsigVerif.Props.C07GenSmoothFreqs']
FQ, SG = 'eqsig/fns/frequency.py', 'eqsig/single.py'

BREAK = [
 ('moment: constant 2 -> 3', FQ, "return 2 * np.trapz(", "return 3 * np.trapz(", 1),
 ('moment: drop the factor 2 of 2*pi', FQ, "(2 * np.pi * asig.fa_frequencies) ** n", "(np.pi * asig.fa_frequencies) ** n", 1),
 ('moment: spectrum ** 3', FQ, "asig.fa_spectrum ** 2", "asig.fa_spectrum ** 3", 1),
 ('moment: abs(spectrum) ** 2', FQ, "asig.fa_spectrum ** 2", "abs(asig.fa_spectrum) ** 2", 1),
 ('moment: exponent n + 1', FQ, ") ** n * asig.fa_spectrum", ") ** (n + 1) * asig.fa_spectrum", 1),
 ('moment: x= the spectrum', FQ, "x=asig.fa_frequencies)", "x=asig.fa_spectrum)", 1),
 ('moment: np.trapezoid', FQ, "np.trapz(", "np.trapezoid(", 1),
 ('moment: operator * -> +', FQ, ") ** n * asig.fa_spectrum ** 2", ") ** n + asig.fa_spectrum ** 2", 1),
 ('moment: frequencies of another attribute', FQ, "(2 * np.pi * asig.fa_frequencies)", "(2 * np.pi * asig.fa_freqs)", 1),
 ('boore: m2 of order 1', FQ, "m2 = calc_fourier_moment(asig, 2)", "m2 = calc_fourier_moment(asig, 1)", 1),
 ('boore: m4 of order 3', FQ, "m4 = calc_fourier_moment(asig, 4)", "m4 = calc_fourier_moment(asig, 3)", 1),
 ('boore: m0 of order 2', FQ, "m0 = calc_fourier_moment(asig, 0)", "m0 = calc_fourier_moment(asig, 2)", 1),
 ('boore: m0 + m4', FQ, "np.sqrt(m2 ** 2 / (m0 * m4))", "np.sqrt(m2 ** 2 / (m0 + m4))", 1),
 ('boore: m2 not squared', FQ, "np.sqrt(m2 ** 2 / (m0 * m4))", "np.sqrt(m2 / (m0 * m4))", 1),
 ('boore: sqrt dropped', FQ, "np.sqrt(m2 ** 2 / (m0 * m4))", "m2 ** 2 / (m0 * m4)", 1),
 ('boore: ratio inverted', FQ, "np.sqrt(m2 ** 2 / (m0 * m4))", "np.sqrt((m0 * m4) / m2 ** 2)", 1),
 ('boore: m4 squared instead', FQ, "np.sqrt(m2 ** 2 / (m0 * m4))", "np.sqrt(m2 / (m0 * m4 ** 2))", 1),
 ('fas2signal: slice store from 0', FQ, "a[1:n // 2] = fas[1:]", "a[0:n // 2] = fas[1:]", 2),
 ('fas2signal: a *= dt', FQ, "a /= dt", "a *= dt", 2),
 ('fas2signal: conj dropped', FQ, "np.flip(np.conj(fas[1:]), axis=0)", "np.flip(fas[1:], axis=0)", 2),
 ('fas2signal: flip dropped', FQ, "np.flip(np.conj(fas[1:]), axis=0)", "np.conj(fas[1:])", 2),
 ('fas2signal: != signal', FQ, "if stype == 'signal':", "if stype != 'signal':", 1),
 ('fas2signal: literal sig', FQ, "if stype == 'signal':", "if stype == 'sig':", 1),
 ('fas2signal: AccSignal in the signal branch', FQ, "return Signal(s, dt)", "return AccSignal(s, dt)", 1),
 ('fas2signal: 2 * dt', FQ, "return AccSignal(s, dt)", "return AccSignal(s, 2 * dt)", 1),
 ('fas2signal: default stype', FQ, 'def fas2signal(fas, dt, stype="signal")', 'def fas2signal(fas, dt, stype="acc")', 1),
 ('fas2signal: one sample fewer', FQ, "s = s[:npts]", "s = s[:npts - 1]", 2),
 ('fas2signal: n = len(fas)', FQ, "n = 2 * len(fas)", "n = len(fas)", 2),
 ('fas2signal: swapped constructor arguments', FQ, "return Signal(s, dt)", "return Signal(dt, s)", 1),
 ('freq_range: ratio doubled', FQ, "asig.smooth_fa_spectrum, ratio=ratio)", "asig.smooth_fa_spectrum, ratio=2 * ratio)", 1),
 ('freq_range: take from the spectrum', FQ, "np.take(asig.smooth_fa_frequencies, indices)", "np.take(asig.smooth_fa_spectrum, indices)", 1),
 ('freq_range: default ratio', FQ, "def get_sig_freq_range(asig, ratio=15)", "def get_sig_freq_range(asig, ratio=10)", 1),
 ('freq_range: indexes of the frequencies', FQ, "get_sig_array_indexes_range(asig.smooth_fa_spectrum,", "get_sig_array_indexes_range(asig.smooth_fa_frequencies,", 1),
 ('alias: first two arguments swapped', FQ, "calc_smooth_fa_spectrum(fa_frequencies, fa_spectrum, smooth_fa_frequencies, band=band)",
  "calc_smooth_fa_spectrum(fa_spectrum, fa_frequencies, smooth_fa_frequencies, band=band)", 1),
 ('alias: band doubled', FQ, "smooth_fa_frequencies, band=band)", "smooth_fa_frequencies, band=2 * band)", 1),
 ('alias: default band', FQ, "fa_frequencies, fa_spectrum, band=40):\n    \"\"\"Deprecated", "fa_frequencies, fa_spectrum, band=20):\n    \"\"\"Deprecated", 1),
 ('alias: targets dropped', FQ, "calc_smooth_fa_spectrum(fa_frequencies, fa_spectrum, smooth_fa_frequencies, band=band)",
  "calc_smooth_fa_spectrum(fa_frequencies, fa_spectrum, None, band=band)", 1),
 ('by_range: limits swapped', SG, "self._smooth_fa_freqs = np.logspace(lf[0], lf[1], n_points, base=10)", "self._smooth_fa_freqs = np.logspace(lf[1], lf[0], n_points, base=10)", 1),
 ('by_range: n_points + 1', SG, "np.logspace(lf[0], lf[1], n_points, base=10)", "np.logspace(lf[0], lf[1], n_points + 1, base=10)", 1),
 ('by_range: base 2', SG, "np.logspace(lf[0], lf[1], n_points, base=10)", "np.logspace(lf[0], lf[1], n_points, base=2)", 1),
 ('by_range: log10 dropped', SG, "        lf = np.log10(limits)\n", "        lf = limits\n", 1),
 ('by_range: cache flag', SG, "        self._smooth_freq_range = np.array(limits)\n        self._cached_smooth_fa = False", "        self._smooth_freq_range = np.array(limits)\n        self._cached_smooth_fa = True", 1),
 ('ctor: 61 points', SG, "self.set_smooth_fa_frequecies_by_range(smooth_freq_range, 50)", "self.set_smooth_fa_frequecies_by_range(smooth_freq_range, 61)", 1),
 ('ctor: default range', SG, "smooth_freq_range=(0.1, 30)", "smooth_freq_range=(0.1, 25)", 1),
 ('range getter: second entry', SG, "return self.smooth_fa_freqs[0], self.smooth_fa_freqs[-1]", "return self.smooth_fa_freqs[1], self.smooth_fa_freqs[-1]", 1),
 ('range getter: swapped', SG, "return self.smooth_fa_freqs[0], self.smooth_fa_freqs[-1]", "return self.smooth_fa_freqs[-1], self.smooth_fa_freqs[0]", 1),
 ('range setter: class attribute 61', SG, "np.logspace(lf[0], lf[1], self.smooth_freq_points, base=10)", "np.logspace(lf[0], lf[1], self._smooth_freq_points, base=10)", 1),
 ('range setter: natural log', SG, "lf = np.log10(np.array(limits))", "lf = np.log(np.array(limits))", 1),
 ('points getter: + 1', SG, "return len(self.smooth_fa_freqs)", "return len(self.smooth_fa_freqs) + 1", 1),
 ('points setter: + 1', SG, "np.logspace(lf[0], lf[1], int(value), base=10)", "np.logspace(lf[0], lf[1], int(value) + 1, base=10)", 1),
 ('points setter: stored limits', SG, "lf = np.log10(self.smooth_freq_range)", "lf = np.log10(self._smooth_freq_range)", 1),
 ('gen_smooth: is None', SG, "        if smooth_fa_freqs is not None:\n            self._smooth_fa_freqs = smooth_fa_freqs", "        if smooth_fa_freqs is None:\n            self._smooth_fa_freqs = smooth_fa_freqs", 1),
 ('gen_smooth: targets None', SG, "self.fa_spectrum, self.smooth_fa_freqs, band=band)", "self.fa_spectrum, None, band=band)", 1),
 ('gen_smooth: cache flag', SG, "self._cached_smooth_fa = True", "self._cached_smooth_fa = False", 1),
 ('gen_smooth: default band', SG, "def gen_smooth_fa_spectrum(self, smooth_fa_freqs=None, band=40)", "def gen_smooth_fa_spectrum(self, smooth_fa_freqs=None, band=20)", 1),
 ('gen_smooth: spectrum and frequencies swapped', SG, "calc_smooth_fa_spectrum(self.fa_freqs,\n                                                               self.fa_spectrum,",
  "calc_smooth_fa_spectrum(self.fa_spectrum,\n                                                               self.fa_freqs,", 1),
 ('generate_smooth: band not passed', SG, "self.gen_smooth_fa_spectrum(band=band)", "self.gen_smooth_fa_spectrum()", 1),
 ('generate_smooth: default band', SG, "def generate_smooth_fa_spectrum(self, band=40)", "def generate_smooth_fa_spectrum(self, band=30)", 1),
 ('freqs setter: doubled', SG, "self._smooth_fa_freqs = np.array(freqs, dtype=float)", "self._smooth_fa_freqs = np.array(freqs, dtype=float) * 2", 1),
 ('freqs getter: another attribute', SG, "    def smooth_fa_freqs(self):\n        return self._smooth_fa_freqs", "    def smooth_fa_freqs(self):\n        return self._smooth_freq_range", 1),
 ('smooth_fa_spectrum property: wrong flag', SG, "if not self._cached_smooth_fa:\n            self.generate_smooth_fa_spectrum()", "if not self._cached_fa:\n            self.generate_smooth_fa_spectrum()", 1),
]

HARMLESS = [
 ('boore: rename m0, m2, m4', FQ, [("m0 = calc", "a0 = calc"), ("m2 = calc", "a2 = calc"), ("m4 = calc", "a4 = calc"), ("np.sqrt(m2 ** 2 / (m0 * m4))", "np.sqrt(a2 ** 2 / (a0 * a4))")]),
 ('moment: temporary for the angular frequencies', FQ, [("    return 2 * np.trapz((2 * np.pi * asig.fa_frequencies) ** n * asig.fa_spectrum ** 2, x=asig.fa_frequencies)",
    "    w = 2 * np.pi * asig.fa_frequencies\n    return 2 * np.trapz(w ** n * asig.fa_spectrum ** 2, x=asig.fa_frequencies)")]),
 ('moment: temporary for the integrand', FQ, [("    return 2 * np.trapz((2 * np.pi * asig.fa_frequencies) ** n * asig.fa_spectrum ** 2, x=asig.fa_frequencies)",
    "    y = (2 * np.pi * asig.fa_frequencies) ** n * asig.fa_spectrum ** 2\n    return 2 * np.trapz(y, x=asig.fa_frequencies)")]),
 ('moment: literal 2. for 2', FQ, [("(2 * np.pi * asig.fa_frequencies)", "(2. * np.pi * asig.fa_frequencies)")]),
 ('moment: A * A for A ** 2', FQ, [("asig.fa_spectrum ** 2", "asig.fa_spectrum * asig.fa_spectrum")]),
 ('moment: commuted 2 * pi', FQ, [("(2 * np.pi * asig.fa_frequencies)", "(np.pi * 2 * asig.fa_frequencies)")]),
 ('boore: commuted m4 * m0', FQ, [("(m0 * m4)", "(m4 * m0)")]),
 ('boore: m2 * m2 for m2 ** 2', FQ, [("np.sqrt(m2 ** 2 / (m0 * m4))", "np.sqrt(m2 * m2 / (m0 * m4))")]),
 ('boore: reorder the moment calls', FQ, [("    m0 = calc_fourier_moment(asig, 0)\n    m2 = calc_fourier_moment(asig, 2)\n", "    m2 = calc_fourier_moment(asig, 2)\n    m0 = calc_fourier_moment(asig, 0)\n")]),
 ('boore: temporary for the ratio', FQ, [("    return np.sqrt(m2 ** 2 / (m0 * m4))", "    r = m2 ** 2 / (m0 * m4)\n    return np.sqrt(r)")]),
 ('fas2signal: rename a', FQ, [("OCC2:    a = np.zeros(2 * len(fas), dtype=complex)\n    a[1:n // 2] = fas[1:]\n    a[n // 2 + 1:] = np.flip(np.conj(fas[1:]), axis=0)\n    a /= dt\n    s = np.fft.ifft(a)",
    "    arr = np.zeros(2 * len(fas), dtype=complex)\n    arr[1:n // 2] = fas[1:]\n    arr[n // 2 + 1:] = np.flip(np.conj(fas[1:]), axis=0)\n    arr /= dt\n    s = np.fft.ifft(arr)")]),
 ('fas2signal: npts temporary removed', FQ, [("OCC2:    npts = n\n    s = s[:npts]", "    s = s[:n]")]),
 ('fas2signal: elif-free else', FQ, [("    if stype == 'signal':\n        return Signal(s, dt)\n    else:\n        return AccSignal(s, dt)", "    if stype == 'signal':\n        return Signal(s, dt)\n    return AccSignal(s, dt)")]),
 ('fas2signal: swapped branches', FQ, [("    if stype == 'signal':\n        return Signal(s, dt)\n    else:\n        return AccSignal(s, dt)", "    if stype != 'signal':\n        return AccSignal(s, dt)\n    else:\n        return Signal(s, dt)")]),
 ('freq_range: indices inlined', FQ, [("    indices = get_sig_array_indexes_range(asig.smooth_fa_spectrum, ratio=ratio)\n    return np.take(asig.smooth_fa_frequencies, indices)",
    "    return np.take(asig.smooth_fa_frequencies, get_sig_array_indexes_range(asig.smooth_fa_spectrum, ratio=ratio))")]),
 ('freq_range: positional ratio', FQ, [("asig.smooth_fa_spectrum, ratio=ratio)", "asig.smooth_fa_spectrum, ratio)")]),
 ('freq_range: renamed temporary', FQ, [("    indices = get_sig", "    ii = get_sig"), ("np.take(asig.smooth_fa_frequencies, indices)", "np.take(asig.smooth_fa_frequencies, ii)")]),
 ('alias: all keywords', FQ, [("calc_smooth_fa_spectrum(fa_frequencies, fa_spectrum, smooth_fa_frequencies, band=band)",
    "calc_smooth_fa_spectrum(band=band, smooth_fa_frequencies=smooth_fa_frequencies, fa_spectrum=fa_spectrum, fa_frequencies=fa_frequencies)")]),
 ('alias: positional band', FQ, [("smooth_fa_frequencies, band=band)", "smooth_fa_frequencies, band)")]),
 ('alias: temporary result', FQ, [("    return calc_smooth_fa_spectrum(fa_frequencies, fa_spectrum, smooth_fa_frequencies, band=band)", "    out = calc_smooth_fa_spectrum(fa_frequencies, fa_spectrum, smooth_fa_frequencies, band=band)\n    return out")]),
 ('by_range: stores reordered', SG, [("        self._smooth_fa_freqs = np.logspace(lf[0], lf[1], n_points, base=10)\n        self._smooth_freq_range = np.array(limits)\n",
    "        self._smooth_freq_range = np.array(limits)\n        self._smooth_fa_freqs = np.logspace(lf[0], lf[1], n_points, base=10)\n")]),
 ('by_range: base=10.0', SG, [("np.logspace(lf[0], lf[1], n_points, base=10)", "np.logspace(lf[0], lf[1], n_points, base=10.0)")]),
 ('by_range: temporaries lo, hi', SG, [("        self._smooth_fa_freqs = np.logspace(lf[0], lf[1], n_points, base=10)\n", "        lo = lf[0]\n        hi = lf[1]\n        self._smooth_fa_freqs = np.logspace(lo, hi, n_points, base=10)\n")]),
 ('by_range: renamed lf', SG, [("        lf = np.log10(limits)\n        self._smooth_fa_freqs = np.logspace(lf[0], lf[1], n_points, base=10)", "        lg = np.log10(limits)\n        self._smooth_fa_freqs = np.logspace(lg[0], lg[1], n_points, base=10)")]),
 ('range getter: temporary', SG, [("        return self.smooth_fa_freqs[0], self.smooth_fa_freqs[-1]", "        f = self.smooth_fa_freqs\n        return f[0], f[-1]")]),
 ('range getter: private attribute', SG, [("        return self.smooth_fa_freqs[0], self.smooth_fa_freqs[-1]", "        return self._smooth_fa_freqs[0], self._smooth_fa_freqs[-1]")]),
 ('range setter: other alias of the setter', SG, [("        self.smooth_fa_freqs = np.logspace(lf[0], lf[1], self.smooth_freq_points, base=10)", "        self.smooth_fa_frequencies = np.logspace(lf[0], lf[1], self.smooth_freq_points, base=10)")]),
 ('range setter: np.array dropped', SG, [("lf = np.log10(np.array(limits))", "lf = np.log10(limits)")]),
 ('points setter: temporary n', SG, [("        self.smooth_fa_freqs = np.logspace(lf[0], lf[1], int(value), base=10)", "        n = int(value)\n        self.smooth_fa_freqs = np.logspace(lf[0], lf[1], n, base=10)")]),
 ('deprecation text changed', SG, [("deprecation('AccSignal.smooth_freq_points is deprecated. Use len(AccSignal.smooth_fa_freqs)')", "deprecation('use len(smooth_fa_freqs)')")]),
 ('gen_smooth: if/else swapped', SG, [("        if smooth_fa_freqs is not None:\n            self._smooth_fa_freqs = smooth_fa_freqs\n", "        if smooth_fa_freqs is None:\n            pass\n        else:\n            self._smooth_fa_freqs = smooth_fa_freqs\n")]),
 ('gen_smooth: positional band', SG, [("self.fa_spectrum, self.smooth_fa_freqs, band=band)", "self.fa_spectrum, self.smooth_fa_freqs, band)")]),
 ('gen_smooth: other alias of the getter', SG, [("self.fa_spectrum, self.smooth_fa_freqs, band=band)", "self.fa_spectrum, self.smooth_fa_frequencies, band=band)")]),
 ('gen_smooth: temporary result', SG, [("        self._smooth_fa_spectrum = calc_smooth_fa_spectrum(self.fa_freqs,\n                                                               self.fa_spectrum, self.smooth_fa_freqs, band=band)",
    "        sm = calc_smooth_fa_spectrum(self.fa_freqs, self.fa_spectrum, self.smooth_fa_freqs, band=band)\n        self._smooth_fa_spectrum = sm")]),
 ('gen_smooth: flag stored first', SG, [("        if smooth_fa_freqs is not None:\n            self._smooth_fa_freqs = smooth_fa_freqs\n", "        self._cached_smooth_fa = True\n        if smooth_fa_freqs is not None:\n            self._smooth_fa_freqs = smooth_fa_freqs\n")]),
 ('ctor: literal 0.10', SG, [("smooth_freq_range=(0.1, 30)", "smooth_freq_range=(0.10, 30)")]),
 ('ctor: literal 30.0', SG, [("smooth_freq_range=(0.1, 30)", "smooth_freq_range=(0.1, 30.0)")]),
]


def replace_nth(text, old, new, occ):
    idx = -1
    for _ in range(occ):
        idx = text.find(old, idx + 1)
        if idx < 0:
            return None
    return text[:idx] + new + text[idx + len(old):]


def translate(repo):
    """-> (untranslatable list, {file: text})"""
    unt, files = [], {}
    for g in P.TARGETS:
        try:
            files.update(g(repo, 'Gen'))
        except Exception as e:
            if type(e).__name__ != 'Untranslatable':
                raise
            unt.append(f"{e.function}:{e.line}: {e.construct}"[:150])
    return unt, files


def write_gen(files):
    for k, v in files.items():
        p = os.path.join(GEN, k)
        if not os.path.exists(p) or open(p).read() != v:
            open(p, 'w').write(v)


def build():
    p = subprocess.run(['lake', 'build'] + MODS, cwd=os.path.join(ROOT, 'lean'), capture_output=True, text=True)
    errs = [l for l in p.stdout.split('\n') if l.startswith('error:') and 'EqsigVerif/' in l]
    return p.returncode == 0, errs[:2]


def fresh_src():
    shutil.rmtree(SRC, ignore_errors=True)
    os.makedirs(SRC)
    shutil.copytree('/repo/eqsig', os.path.join(SRC, 'eqsig'))


def main():
    mode = sys.argv[1] if len(sys.argv) > 1 else 'break'
    _, base = translate('/repo')
    write_gen(base)
    ok, errs = build()
    assert ok, errs
    rows = []
    if mode == 'break':
        for label, f, old, new, occ in BREAK:
            fresh_src()
            p = os.path.join(SRC, f)
            t = replace_nth(open(p).read(), old, new, occ)
            if t is None:
                rows.append((label, 'EDIT DID NOT APPLY'))
                continue
            open(p, 'w').write(t)
            compile(t, p, 'exec')
            unt, files = translate(SRC)
            if unt:
                rows.append((label, 'caught: Untranslatable ' + unt[0]))
                continue
            if files == base:
                rows.append((label, 'SLIPPED: generated text unchanged'))
                continue
            write_gen(files)
            ok, errs = build()
            rows.append((label, 'SLIPPED: bridges still build' if ok else 'caught: bridge fails ' + (errs[0][:110] if errs else '')))
    else:
        for label, f, reps in HARMLESS:
            fresh_src()
            p = os.path.join(SRC, f)
            t = open(p).read()
            bad = False
            for old, new in reps:
                occ = 1
                if old.startswith('OCC2:'):
                    old, occ = old[5:], 2
                t2 = replace_nth(t, old, new, occ)
                if t2 is None:
                    bad = True
                    break
                t = t2
            if bad:
                rows.append((label, 'EDIT DID NOT APPLY'))
                continue
            open(p, 'w').write(t)
            compile(t, p, 'exec')
            unt, files = translate(SRC)
            if unt:
                rows.append((label, 'raises Untranslatable ' + unt[0]))
                continue
            if files == base:
                rows.append((label, 'survives: byte-identical output'))
                continue
            write_gen(files)
            ok, errs = build()
            rows.append((label, 'survives: different text, bridges build' if ok else 'BREAKS the bridge ' + (errs[0][:110] if errs else '')))
    write_gen(base)
    build()
    for r in rows:
        print('%-52s %s' % r)
    print('TOTAL', len(rows), 'caught/survive', sum(1 for r in rows if r[1].startswith(('caught', 'survives'))))


main()
