#!/usr/bin/env python3
"""sensitivity of corr_freq2 / its oracles: one-line mutations of a scratch copy of /repo, each must produce failures with inputs"""
import os, shutil, subprocess, sys
MUT = '/tmp/tw_freq2/mut'
FQ, SG = 'eqsig/fns/frequency.py', 'eqsig/single.py'
M = [
 ('moment: factor 2 dropped', FQ, "return 2 * np.trapz(", "return np.trapz(", 1),
 ('moment: exponent n+1', FQ, ") ** n * asig.fa_spectrum", ") ** (n + 1) * asig.fa_spectrum", 1),
 ('moment: |A|**2', FQ, "asig.fa_spectrum ** 2", "abs(asig.fa_spectrum) ** 2", 1),
 ('moment: np.pi -> 3.14', FQ, "(2 * np.pi * asig.fa_frequencies)", "(2 * 3.14 * asig.fa_frequencies)", 1),
 ('boore: m4 of order 3', FQ, "m4 = calc_fourier_moment(asig, 4)", "m4 = calc_fourier_moment(asig, 3)", 1),
 ('boore: m2 not squared', FQ, "np.sqrt(m2 ** 2 / (m0 * m4))", "np.sqrt(m2 / (m0 * m4))", 1),
 ('fas2signal: != signal', FQ, "if stype == 'signal':", "if stype != 'signal':", 1),
 ('fas2signal: a *= dt', FQ, "a /= dt", "a *= dt", 2),
 ('fas2signal: one sample fewer', FQ, "s = s[:npts]", "s = s[:npts - 1]", 2),
 ('freq_range: take from the spectrum', FQ, "np.take(asig.smooth_fa_frequencies, indices)", "np.take(asig.smooth_fa_spectrum, indices)", 1),
 ('freq_range: ratio ignored', FQ, "asig.smooth_fa_spectrum, ratio=ratio)", "asig.smooth_fa_spectrum)", 1),
 ('alias: band ignored', FQ, "smooth_fa_frequencies, band=band)", "smooth_fa_frequencies)", 1),
 ('alias: targets dropped', FQ, "calc_smooth_fa_spectrum(fa_frequencies, fa_spectrum, smooth_fa_frequencies, band=band)", "calc_smooth_fa_spectrum(fa_frequencies, fa_spectrum, None, band=band)", 1),
 ('by_range: n_points + 1', SG, "np.logspace(lf[0], lf[1], n_points, base=10)", "np.logspace(lf[0], lf[1], n_points + 1, base=10)", 1),
 ('ctor: 61 points', SG, "self.set_smooth_fa_frequecies_by_range(smooth_freq_range, 50)", "self.set_smooth_fa_frequecies_by_range(smooth_freq_range, 61)", 1),
 ('range setter: class attribute 61', SG, "np.logspace(lf[0], lf[1], self.smooth_freq_points, base=10)", "np.logspace(lf[0], lf[1], self._smooth_freq_points, base=10)", 1),
 ('range getter: [1]', SG, "return self.smooth_fa_freqs[0], self.smooth_fa_freqs[-1]", "return self.smooth_fa_freqs[1], self.smooth_fa_freqs[-1]", 1),
 ('points setter: value - 1', SG, "np.logspace(lf[0], lf[1], int(value), base=10)", "np.logspace(lf[0], lf[1], int(value) - 1, base=10)", 1),
 ('gen_smooth: given targets ignored', SG, "        if smooth_fa_freqs is not None:\n            self._smooth_fa_freqs = smooth_fa_freqs", "        if False:\n            self._smooth_fa_freqs = smooth_fa_freqs", 1),
 ('gen_smooth: band ignored', SG, "self.fa_spectrum, self.smooth_fa_freqs, band=band)", "self.fa_spectrum, self.smooth_fa_freqs)", 1),
]

def replace_nth(text, old, new, occ):
    idx = -1
    for _ in range(occ):
        idx = text.find(old, idx + 1)
        assert idx >= 0, old
    return text[:idx] + new + text[idx + len(old):]

for label, f, old, new, occ in M:
    shutil.rmtree(MUT, ignore_errors=True)
    shutil.copytree('/repo', MUT, ignore=shutil.ignore_patterns('.git', '__pycache__'))
    p = os.path.join(MUT, f)
    txt = replace_nth(open(p).read(), old, new, occ)
    open(p, 'w').write(txt)
    env = dict(os.environ, PYTHONPATH=MUT, PYTHONDONTWRITEBYTECODE='1')
    r = subprocess.run(['/venv/bin/python', 'scratch/validate_freq2.py', '0'], capture_output=True, text=True, env=env, cwd=os.path.join(os.path.dirname(__file__), '..'))
    out = r.stdout
    cf = [l for l in out.split('\n') if l.startswith('CORR FAILURES')]
    of = [l for l in out.split('\n') if l.startswith('ORACLE FAILURES')]
    first = ''
    lines = out.split('\n')
    for i, l in enumerate(lines):
        if l.startswith('CORR FAILURES') and i + 1 < len(lines) and lines[i + 1].startswith('   '):
            first = lines[i + 1].strip()[:110]
            break
    print('%-40s %s %s exit=%d | %s' % (label, cf[0] if cf else '?', of[0] if of else '?', r.returncode, first or (r.stderr.strip().split('\n')[-1][:100] if r.returncode and not cf else '')))
shutil.rmtree(MUT, ignore_errors=True)
