"""standalone validation of Model/FreqMoments.lean + Prelude/NpF.lean against the real eqsig / NumPy (uses the harness Ctx and the
private driver).  usage: cd <verif copy> && PYTHONPATH=/repo /venv/bin/python scratch/validate_freq2.py [seed] [tier]"""
import os, sys, json
here = os.path.dirname(os.path.abspath(__file__))
sys.path.insert(0, os.path.join(here, '..', 'harness'))
sys.path.insert(0, os.path.join(here, '..', 'harness', 'props'))
import core
import _freq2

seed = int(sys.argv[1]) if len(sys.argv) > 1 else 0
tier = sys.argv[2] if len(sys.argv) > 2 else 'quick'
ctx = core.Ctx('C06', tier, seed)
_freq2.prelude_freq2(ctx)
_freq2.corr_freq2(ctx)
print('driver', core.DRIVER)
print('correspondence cases', sum(ctx.corr_count.values()), 'labels', len(ctx.corr_count))
for k, v in sorted(ctx.corr_count.items()):
    print('   %5d  %s' % (v, k))
print('oracle evaluations', sum(ctx.oracle_count.values()))
for k, v in sorted(ctx.oracle_count.items()):
    print('   %5d  %s' % (v, k))
print('gaps', {k: '%.2e' % v for k, v in ctx.max_gap.items()})
print('hist', json.dumps(ctx.dist, indent=0)[:3000])
print('CORR FAILURES', len(ctx.corr_failures))
for f in ctx.corr_failures[:12]:
    print('  ', f['fn'], '|', f['message'], '|', f['request'][:200], '|', str(f['inputs'])[:300])
print('ORACLE FAILURES', len(ctx.oracle_failures))
for f in ctx.oracle_failures[:12]:
    print('  ', f['clause'], '|', str(f['inputs'])[:300], '|', f['detail'])
sys.exit(1 if ctx.corr_failures or ctx.oracle_failures else 0)
