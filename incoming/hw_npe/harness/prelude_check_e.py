"""PRELUDE (second part) — differential test of the translator-target combinators (DESIGN §3.2, §11.1).

The combinators the translator plug-ins map Python statements to — `lean/EqsigVerif/Prelude/NpE.lean` (NumPy / Python
primitives *with* their exceptions) and `lean/EqsigVerif/Model/SdofLoopGen.lean` (`for i in range(n)`, `np.zeros([r, c])`,
block row assignment, per-row triples) — are exposed unchanged by `lean/EqsigVerif/Handlers/PreludeE.lean` (handlers
`np.e.*`).  `run_prelude_e(ctx)` evaluates the *real* NumPy / Python expression named in each definition's doc comment and the
driver handler on the same inputs and compares exactly (small dyadic rationals: every float operation involved is exact;
the loop combinator is run on `Fraction`s, where Python itself is exact).

Inputs per primitive: empty, length 1, ties, plateaus, boundary / out-of-range / negative indices, random dyadic arrays,
30-60 requests each.  Error kinds are compared exactly where the model claims them: `x[i]` / `x[-1]` out of range =
IndexError, `max([])` / `np.argmin([])` / `np.argmax([])` = ValueError, `np.ones(k<0)` = ValueError, `assert False` =
AssertionError, `int(np.ceil(np.log2(0)))` = OverflowError (the model's `ErrKind.Other`; only this exception type is
accepted for it).  Inputs outside a definition's stated domain (`setSlice` / `setRowsFrom` with a right-hand side of another
length, `lo > hi`, `hi > len`) are never generated; the handlers answer `bad|... outside the modelled domain` to them.

Not covered: `NpE.fft` / `NpE.ifft` (see NOTES: no handler runs the exact rational DFT; the DFT is the external
assumption `FftIsDft`, validated at Float by C06/C07).  `NpE.ceilLog2` is compared for `n <= 2^48 + 1` only: from
`n = 2^49 + 1` on `np.log2` rounds to the integer below and NumPy's value is one less than the model's (NOTES, finding 1).

Bookkeeping rules of `prelude_check.run_prelude`: `ctx.hist('PRELUDE/<handler>')`, correspondence label
`'PRELUDE <handler>'`, `ctx.count_case` is NOT called, the generator is derived from `ctx.rng` without advancing it (and is
independent of the one `run_prelude` derives), a handler the driver does not know yet is skipped with a note.
"""
import random
import time
from fractions import Fraction

import numpy as np

import core
from core import w_rat, w_rats, w_bool, p_rats, p_ints, cmp_exact, call_impl
from prelude_check import (N_RANDOM, dy, arr, sizes, w_ints, flat, c_rats, c_mean, _bound, _slice1,
                           missing_handlers)


# ------------------------------------------------------------------------------------------------
# helpers
# ------------------------------------------------------------------------------------------------

def call_impl_other(f, *a, other=(), **k):
    """call_impl, with the exception types named in `other` (and only those) mapped to the model's `ErrKind.Other`"""
    res = call_impl(f, *a, **k)
    if res[0] == 'err' and res[1].startswith('Other:') and res[1][len('Other:'):] in other:
        return ('err', 'Other')
    return res


def c_scalar(outs, val):
    return cmp_exact([val], p_rats(outs[0]))


def c_index(outs, val):
    return cmp_exact([int(val)], p_ints(outs[0]))


def c_rows_at(outs, k, val):
    """fields k, k+1, k+2 of the response are `<nrows>`, `<length of each row>`, `<flat values>` (Handlers/PreludeE.lean
    `outRows`); val is the 2-D impl array"""
    v = np.asarray(val)
    if v.ndim != 2:
        return f"impl value has shape {v.shape}, expected 2-D"
    nrows = p_ints(outs[k])
    if nrows != [v.shape[0]]:
        return f"rows impl={v.shape[0]} model={nrows}"
    lens = p_ints(outs[k + 1])
    if lens != [v.shape[1]] * v.shape[0]:
        return f"row lengths impl={v.shape[1]} (x{v.shape[0]}) model={lens}"
    return cmp_exact(list(v.ravel()), p_rats(outs[k + 2]))


def c_rows(outs, val):
    if len(outs) != 3:
        return f"expected 3 output fields, got {len(outs)}"
    return c_rows_at(outs, 0, val)


def mat(rng, r, c):
    """an r x c float64 array of small dyadics (any of r, c may be 0)"""
    return arr(rng, r * c, rng.choice(['dyadic', 'int', 'ties', 'zeros'])).reshape(r, c)


def fdy(rng, lo=-16, hi=16, kmax=3):
    """a small dyadic as a Fraction"""
    return Fraction(rng.randint(lo, hi), 2 ** rng.randint(0, kmax))


# ------------------------------------------------------------------------------------------------
# Prelude/NpE.lean.  Each generator yields (args, impl_result, compare, inputs) tuples.
# ------------------------------------------------------------------------------------------------

CEIL_LOG2_MAX_K = 48        # np.log2(2**k + 1) rounds to k from k = 49 on: outside the range the model is compared on


def g_ceil_log2(rng):
    def f(n):
        return int(np.ceil(np.log2(n)))
    ns = list(range(0, 20)) + [0] + [2 ** k + d for k in (5, 8, 16, 31, 32, 40, CEIL_LOG2_MAX_K) for d in (-1, 0, 1)] + \
        [rng.randint(20, 5000) for _ in range(6)] + [rng.randint(1, 2 ** rng.randint(13, CEIL_LOG2_MAX_K)) for _ in range(6)]
    for i, n in enumerate(ns):
        arg = np.int64(n) if i % 2 else n                    # len(x) (a Python int) and array sizes (NumPy integers)
        yield [str(n)], call_impl_other(f, arg, other=('OverflowError',)), c_index, {'n': n}


def g_assert(rng):
    def f(b):
        assert b
        return None

    def cmp(outs, val):
        return None if val is None and outs in ([], [[]]) else f"impl={val!r} model={outs!r}"
    for i in range(24):
        x, y = dy(rng, -3, 3, 1), dy(rng, -3, 3, 1)
        b = [True, False, x < y, x <= y, x == y, np.float64(x) < np.float64(y)][i % 6]     # bool and np.bool_
        yield [w_bool(bool(b))], call_impl(f, b), cmp, {'b': bool(b), 'type': type(b).__name__}


def g_get(rng):
    for i in range(N_RANDOM + 12):
        a = arr(rng, sizes(rng, i, (0, 0, 1, 1, 1, 2, 2, 3)))
        n = len(a)
        k = rng.choice([0, 0, max(n - 1, 0), n, n + 1, rng.randint(0, n + 2), rng.randint(0, max(n - 1, 0))])
        src = a if i % 2 else list(a)                 # NumPy and list indexing: the same rule
        yield [w_rats(a), str(k)], call_impl(lambda src=src, k=k: src[k]), c_scalar, {'a': a, 'i': k}


def g_last(rng):
    for i in range(N_RANDOM + 8):
        a = arr(rng, sizes(rng, i, (0, 0, 0, 1, 1, 2, 2, 3)))
        src = a if i % 2 else list(a)
        yield [w_rats(a)], call_impl(lambda src=src: src[-1]), c_scalar, {'a': a}


def g_max(rng):
    fs = [np.max, max, lambda a: a.max(), lambda a: max(list(a))]
    for i in range(N_RANDOM + 8):
        a = arr(rng, sizes(rng, i, (0, 0, 0, 0, 1, 1, 2, 2, 3)))
        yield [w_rats(a)], call_impl(fs[i % 4], a), c_scalar, {'a': a}


def _arg_e(fnp, meth):
    def g(rng):
        fs = [fnp, lambda a: getattr(a, meth)(), lambda a: fnp(list(a))]
        for i in range(N_RANDOM + 10):
            kind = rng.choice(['ties', 'plateau', 'const', 'zeros', 'dyadic', 'int', 'mono'])
            a = arr(rng, sizes(rng, i, (0, 0, 0, 1, 1, 2, 2, 2, 3, 3)), kind)
            yield [w_rats(a)], call_impl(fs[i % 3], a), c_index, {'a': a}
    return g


def g_set_slice(rng):
    def assign_np(a, lo, hi, rhs):
        r = a.copy()
        r[lo:hi] = rhs
        return r

    def assign_list(a, lo, hi, rhs):
        r = list(a)
        r[lo:hi] = list(rhs)
        return r
    for i in range(N_RANDOM + 12):
        a = arr(rng, sizes(rng, i), rng.choice(['zeros', 'const', 'dyadic', 'int']))
        n = len(a)
        lo = rng.choice([0, 0, 1, n, n - 1, rng.randint(0, n)])
        lo = min(max(lo, 0), n)
        hi = rng.choice([lo, n, n, lo + 1, rng.randint(lo, n)])
        hi = min(max(hi, lo), n)
        rhs = arr(rng, hi - lo, 'dyadic')
        f = assign_np if i % 2 else assign_list
        yield [w_rats(a), str(lo), str(hi), w_rats(rhs)], call_impl(f, a, lo, hi, rhs), c_rats, \
            {'a': a, 'lo': lo, 'hi': hi, 'rhs': rhs}


def g_zeros(rng):
    for i, n in enumerate(list(range(0, 12)) + [rng.randint(12, 80) for _ in range(24)]):
        yield [str(n)], call_impl(np.zeros, np.int64(n) if i % 2 else n), c_rats, {'n': n}


def g_flip(rng):
    fs = [lambda a: np.flip(a, axis=0), np.flipud, lambda a: a[::-1], np.flip, lambda a: list(a)[::-1]]
    for i in range(N_RANDOM + 6):
        a = arr(rng, sizes(rng, i))
        yield [w_rats(a)], call_impl(fs[i % 5], a), c_rats, {'a': a}


def g_drop_last(rng):
    for i in range(N_RANDOM + 12):
        a = arr(rng, sizes(rng, i))
        n = len(a)
        k = rng.choice([0, 0, 1, 1, 2, n, max(n - 1, 0), n + 1, n + 3, rng.randint(0, n + 2)])     # x[:-0] is x[:0]
        src = a if i % 2 else list(a)
        yield [w_rats(a), str(k)], call_impl(lambda src=src, k=k: src[:-k]), c_rats, {'a': a, 'k': k}


def g_py_bound(rng):
    def f(n, i):
        stop = slice(None, i).indices(n)[1]                  # the stop Python computes for x[:i]
        start = slice(i, None).indices(n)[0]                 # the start Python computes for x[i:]
        if not (stop == start == len(range(n)[:i]) == n - len(range(n)[i:]) == len(np.arange(n)[:i])):
            raise RuntimeError("Python's own slice bounds disagree")
        return stop
    for i in range(N_RANDOM + 16):
        n = sizes(rng, i, (0, 0, 0, 1, 1, 1, 2, 2, 3))
        k = _bound(rng, n)
        yield [str(n), str(k)], call_impl(f, n, k), c_index, {'n': n, 'i': k}


def g_ones(rng):
    ks = [-3, -2, -1, -1, -1, 0, 0, 1, 1, 2, 3] + [rng.randint(-6, -1) for _ in range(8)] + [rng.randint(0, 40) for _ in range(20)]
    for i, k in enumerate(ks):
        yield [str(k)], call_impl(np.ones, np.int64(k) if i % 2 else k), c_rats, {'k': k}


def g_mean(rng):
    fs = [np.mean, lambda a: a.mean()]
    for i in range(N_RANDOM + 8):
        a = arr(rng, sizes(rng, i, (0, 0, 0, 1, 1, 2, 2, 3)))
        yield [w_rats(a)], call_impl(fs[i % 2], a), c_mean, {'a': a}


# ------------------------------------------------------------------------------------------------
# Model/SdofLoopGen.lean
# ------------------------------------------------------------------------------------------------

def g_for_range(rng):
    def loops(n, c, init, a):
        visited = []
        for i in range(n):
            visited = visited + [i]
        st = init
        for i in range(n):
            st = c * st + i
        a = list(a)
        for i in range(len(a) - 1):                          # range(-1) for an empty list: no iteration
            a[i + 1] = c * a[i] + a[i + 1]
        return visited, st, a

    def cmp(outs, val):
        if len(outs) != 3:
            return f"expected 3 output fields, got {len(outs)}"
        visited, st, a = val
        return (cmp_exact(visited, p_ints(outs[0])) or cmp_exact([st], p_rats(outs[1]))
                or cmp_exact(a, p_rats(outs[2])))
    for i in range(N_RANDOM + 8):
        n = (0, 0, 1, 1, 2, 3)[i] if i < 6 else rng.choice([0, 1, 2, 3, 4, 5, 8, rng.randint(6, 40)])
        c = rng.choice([Fraction(0), Fraction(1), Fraction(-1), Fraction(1, 2), Fraction(2), fdy(rng, -6, 6, 2)])
        init = rng.choice([Fraction(0), Fraction(1), fdy(rng)])
        a = [fdy(rng) for _ in range(sizes(rng, (i + 3) % (N_RANDOM + 8)))]
        yield [str(n), w_rat(c), w_rat(init), w_rats(a)], call_impl(loops, n, c, init, a), cmp, \
            {'n': n, 'c': c, 'init': init, 'a': a}


def g_zeros2(rng):
    shapes = [(r, c) for r in (0, 1, 2, 3) for c in (0, 1, 2, 3)] + \
        [(rng.randint(0, 9), rng.randint(0, 12)) for _ in range(24)]
    for i, (r, c) in enumerate(shapes):
        shape = [r, c] if i % 2 == 0 else (r, c)
        yield [str(r), str(c)], call_impl(np.zeros, shape, dtype=float), c_rows, {'r': r, 'c': c}


def g_set_rows_from(rng):
    def assign(base, s, rows):
        b = base.copy()
        b[s:] = rows
        return b
    for i in range(N_RANDOM + 12):
        base = arr(rng, sizes(rng, i), rng.choice(['zeros', 'const', 'dyadic']))
        if i % 4 == 3:
            base = np.zeros(len(base) + 1)                   # `x = np.zeros(n + 1); x[1:] = v` (Gen/Displ.lean)
        n = len(base)
        s = rng.choice([0, 0, 1, 1, n, max(n - 1, 0), n + 1, n + 2, rng.randint(0, n + 1)])
        rows = arr(rng, max(n - s, 0), 'dyadic')             # s > n: base[s:] is empty, and so is the right-hand side
        yield [str(s), w_rats(base), w_rats(rows)], call_impl(assign, base, s, rows), c_rats, \
            {'base': base, 's': s, 'rows': rows}


def g_set_rows_from2(rng):
    def assign(base, s, rows):
        b = base.copy()
        b[s:] = rows
        return b
    for i in range(N_RANDOM + 12):
        nbase = (0, 0, 1, 1, 2, 2, 3)[i] if i < 7 else rng.randint(0, 7)
        ncols = (1, 0, 1, 0, 2, 3, 1)[i] if i < 7 else rng.choice([0, 1, 2, 3, rng.randint(1, 8)])
        base = mat(rng, nbase, ncols)
        if i % 3 == 2:
            base = np.zeros([nbase, ncols])                  # `resp_u = np.zeros([..]); resp_u[s:] = …` (Gen/SdofLoop.lean)
        s = rng.choice([0, 0, 1, 1, nbase, max(nbase - 1, 0), nbase + 1, rng.randint(0, nbase + 1)])
        rows = mat(rng, max(nbase - s, 0), ncols)
        args = [str(s), str(ncols), str(nbase), w_rats(base.ravel()), str(len(rows)), w_rats(rows.ravel())]
        yield args, call_impl(assign, base, s, rows), c_rows, {'base': base, 's': s, 'rows': rows}


def g_unzip3(rng):
    def by_comprehension(rows, ncols):
        return tuple(np.array([t[k] for t in rows], dtype=float).reshape(len(rows), ncols) for k in range(3))

    def by_zip(rows, ncols):
        u, v, w = zip(*rows)
        return tuple(np.array(x, dtype=float).reshape(len(rows), ncols) for x in (u, v, w))

    def by_array(rows, ncols):
        a = np.array(rows, dtype=float)                      # shape (nrows, 3, ncols)
        return a[:, 0], a[:, 1], a[:, 2]

    def cmp(outs, val):
        if len(outs) != 9:
            return f"expected 9 output fields, got {len(outs)}"
        for k in range(3):
            m = c_rows_at(outs, 3 * k, val[k])
            if m is not None:
                return f"component {k}: {m}"
        return None
    for i in range(N_RANDOM):
        nrows = (0, 0, 1, 1, 2, 2)[i] if i < 6 else rng.randint(0, 6)
        ncols = (0, 2, 0, 1, 1, 3)[i] if i < 6 else rng.choice([0, 1, 2, 3, rng.randint(1, 8)])
        u, v, w = mat(rng, nrows, ncols), mat(rng, nrows, ncols), mat(rng, nrows, ncols)
        rows = [(u[k], v[k], w[k]) for k in range(nrows)]
        f = by_comprehension if nrows == 0 else (by_comprehension, by_zip, by_array)[i % 3]
        args = [str(nrows), str(ncols), w_rats(u.ravel()), w_rats(v.ravel()), w_rats(w.ravel())]
        yield args, call_impl(f, rows, ncols), cmp, {'u': u, 'v': v, 'w': w}


PRIMITIVES_E = [
    # handler, generator                               -- the Lean definition under test
    ('np.e.ceil_log2', g_ceil_log2),                                       # NpE.ceilLog2
    ('np.e.assert', g_assert),                                             # NpE.assertE
    ('np.e.get', g_get),                                                   # NpE.getE
    ('np.e.last', g_last),                                                 # NpE.lastE
    ('np.e.max', g_max),                                                   # NpE.maxE
    ('np.e.argmin', _arg_e(np.argmin, 'argmin')),                          # NpE.argminE
    ('np.e.argmax', _arg_e(np.argmax, 'argmax')),                          # NpE.argmaxE
    ('np.e.set_slice', g_set_slice),                                       # NpE.setSlice
    ('np.e.zeros', g_zeros),                                               # NpE.zeros
    ('np.e.flip', g_flip),                                                 # NpE.flip
    ('np.e.drop_last', g_drop_last),                                       # NpE.dropLast
    ('np.e.py_bound', g_py_bound),                                         # NpE.pyBound
    ('np.e.py_slice_to', _slice1(lambda a, k: a[:k])),                     # NpE.pySliceTo
    ('np.e.py_slice_from', _slice1(lambda a, k: a[k:])),                   # NpE.pySliceFrom
    ('np.e.ones', g_ones),                                                 # NpE.onesE
    ('np.e.mean', g_mean),                                                 # NpE.mean?
    ('np.e.for_range', g_for_range),                                       # Model.SdofLoopGen.forRange
    ('np.e.zeros2', g_zeros2),                                             # Model.SdofLoopGen.zeros2
    ('np.e.set_rows_from', g_set_rows_from),                               # Model.SdofLoopGen.setRowsFrom (1-D)
    ('np.e.set_rows_from2', g_set_rows_from2),                             # Model.SdofLoopGen.setRowsFrom (rows of a 2-D array)
    ('np.e.unzip3', g_unzip3),                                             # Model.SdofLoopGen.unzip3
]


def run_prelude_e(ctx, budget_s=4.0):
    """differentially test every translator-target combinator against the real NumPy/Python; failures land in
    ctx.corr_failures (label 'PRELUDE <handler>').  Returns the number of requests queued."""
    t0 = time.time()
    state = ctx.rng.getstate()                       # derive a generator from ctx.rng without advancing it
    rng = random.Random('prelude-e/%d' % ctx.rng.getrandbits(64))      # a stream of its own, not the one of run_prelude
    ctx.rng.setstate(state)
    names = [n for n, _ in PRIMITIVES_E]
    try:
        missing = missing_handlers(names)
    except Exception as e:  # noqa  (driver not built / not runnable)
        ctx.notes.append(f"prelude check (np.e.*) skipped: {type(e).__name__}: {e}")
        return 0
    if missing:
        ctx.notes.append('prelude handler missing: ' + ', '.join(sorted(missing)) + ' (driver not rebuilt?) - skipped')
    queued = 0
    skipped = []
    for name, gen_cases in PRIMITIVES_E:
        if name in missing:
            ctx.hist('PRELUDE-missing/' + name)
            continue
        if time.time() - t0 > budget_s:
            skipped.append(name)
            continue
        sub = random.Random(rng.getrandbits(64))    # one stream per primitive: skipping one does not shift the others
        for args, res, compare, inputs in gen_cases(sub):
            ctx.hist('PRELUDE/' + name)
            ctx.corr('PRELUDE ' + name, name + '|' + '|'.join(args), res, compare, inputs=inputs)
            queued += 1
    if skipped:
        ctx.notes.append(f"prelude (np.e.*) budget of {budget_s}s exhausted; not run: " + ', '.join(skipped))
    ctx.flush()
    ctx.hist('PRELUDE-requests', queued)
    return queued


if __name__ == '__main__':
    import os
    import sys
    from core import Ctx
    if os.environ.get('PRELUDE_DRIVER'):              # test against a scratch driver
        core.DRIVER = os.environ['PRELUDE_DRIVER']
    seed = int(sys.argv[1]) if len(sys.argv) > 1 else int(os.environ.get('VERIF_SEED', '0'))
    ctx = Ctx('PRELUDE', 'quick', seed)
    t = time.time()
    run_prelude_e(ctx)
    ctx.flush()
    bad = {}
    for f in ctx.corr_failures:
        bad[f['fn']] = bad.get(f['fn'], 0) + 1
    print(ctx.corr_count, ctx.corr_failures[:3])
    print(f"requests={sum(ctx.corr_count.values())} primitives={len(ctx.corr_count)} failures={len(ctx.corr_failures)} "
          f"failing={bad} notes={ctx.notes} wall={time.time() - t:.2f}s")
    sys.exit(1 if ctx.corr_failures else 0)
