import numpy as np, math
from fractions import Fraction as F
def window(dt, pps, start):
    end = start+pps
    itt = (start*dt)+1
    it = np.arange(start*dt, itt, dt)
    xl = start*dt; xu = end*dt
    mask = (xl <= it)*(it <= xu)
    return len(it), int(mask.sum())
res={}
for pps in list(range(1,1001)):
    dt = 1/pps
    if int(1/dt)!=pps: print("int(1/dt) != pps", pps, int(1/dt))
    lens=set(); ms=set(); firstbig=None
    for i in range(0,200):
        L,M = window(dt,pps,i*pps)
        lens.add(L-pps); ms.add(M-pps)
        if M==pps+1 and firstbig is None: firstbig=i
    res[pps]=(sorted(lens),sorted(ms),firstbig)
import collections
c=collections.Counter((tuple(v[0]),tuple(v[1])) for v in res.values())
print(c)
for pps in [1,2,4,5,8,10,16,20,25,40,50,100,200,250,400,500,1000]:
    print(pps,res[pps])
print("pps with some window of length pps+1 (int(1/dt)==pps):")
out=[]
for pps,v in res.items():
    if 1 in v[0] and int(1/(1/pps))==pps: out.append((pps,v))
print(len(out), out[:25])
# which of those have mask count pps+1
print([ (p,v[2]) for p,v in out if 1 in v[1]][:30])
# larger W for standard
for pps in [1,2,4,5,8,10,16,20,25,40,50,64,80,100,128,200,250,256,400,500,512,1000]:
    dt=1/pps; bad=[]
    for i in range(0,5000):
        L,M=window(dt,pps,i*pps)
        if L!=pps or M!=pps: bad.append((i,L,M)); 
        if len(bad)>3: break
    from math import log2
    eps = F(dt)*pps-1
    print(pps, bad, float(eps), float(eps)/2**-54)
