import sys, random, warnings
import os; sys.path.insert(0, os.environ.get('VERIF', '/verif') + '/harness')  # val_c09 needs a driver built with Handlers/LwSmall
import numpy as np
from fractions import Fraction as F
from core import run_driver, w_rats, fr
from eqsig.fns.average import calc_step_fn_vals_error, calc_step_fn_steps_vals
warnings.simplefilter('ignore')
rng = random.Random(7)
cases = [[840.0*x for x in c] for c in [[1.0],[2.0,2.0],[1.0,2.0],[2.0,1.0],[-1,-2,-3,4,5,6],[6,5,4,-3,7,-1],[0,0,0],[1,1,2,1],[3,-1,3,-1,3],[5,5,1,1],[1,1,5,5],[]]]
for _ in range(120):
    n = rng.randint(1,8)
    k = rng.choice([1,2,4])
    cases.append([rng.randint(-8,8)*840.0 for _ in range(n)])
reqs=[];exp=[]
for v in cases:
    for p in (1,2,0,3):
        for d in (None,'up','down'):
            try:
                r = ('ok', [fr(x) for x in calc_step_fn_vals_error(np.array(v,dtype=float), pow=p, dir=d)])
            except Exception as e:
                r = ('err', type(e).__name__)
            reqs.append(f"step_err|{w_rats(v)}|{p}|{d or 'none'}"); exp.append((v,p,d,r))
res = run_driver(reqs)
bad=0
upstep=[]
allex=0
for (v,p,d,r),m in zip(exp,res):
    if r[0]=='err':
        ok = (m[0]=='err' and m[1]==r[1])
    else:
        ok = m[0]=='ok' and [F(t) for t in m[1][0]]==r[1]
    if not ok:
        bad+=1; print("DISAGREE",v,p,d,r,m)
    if r[0]=='ok' and d and len(v)>=1:
        err=r[1]; k=int(np.argmin(np.array([float(e) for e in err])))
        # exact argmin
        kk=min(range(len(err)),key=lambda i:(err[i],i)); assert kk==k
        if len(set(err))==1 and len(v)>1 and err[0]!=0: allex+=1
        pre,post=calc_step_fn_steps_vals(np.array(v,dtype=float),ind=k)
        if d=='down' and pre<post: upstep.append((v,p,d,k,pre,post))
        if d=='up' and pre>post: upstep.append((v,p,d,k,pre,post))
print("cases",len(reqs),"disagreements",bad,"all-excluded",allex,"wrong-direction levels",len(upstep))
for u in upstep[:8]: print(u)
