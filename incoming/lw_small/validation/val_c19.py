import sys, random, warnings, itertools
import os; sys.path.insert(0, os.environ.get('VERIF', '/verif') + '/harness')  # val_c09 needs a driver built with Handlers/LwSmall
import numpy as np
from fractions import Fraction as F
from core import run_driver, w_rats, w_rat, fr, w_bool
import eqsig
from eqsig import surface as sf
warnings.simplefilter('ignore')
rng = random.Random(11)
def call(fn,*a,**k):
    try:
        with np.errstate(all='ignore'):
            return ('ok', fn(*a,**k))
    except Exception as e:
        return ('err', type(e).__name__)
reqs=[];exp=[]
vals_pool=[[1.,2.,-1.,3.],[1.0],[2.,-3.,0.5,4.,1.,-2.]]
tts_pool=[[0.25],[0.5,1.5],[0.125,0.25,0.5],[0.0],[0.5,0.5]]
pick=lambda: rng.choice([1.0,0.5,2.0,-1.0,0.75,0.0,1.5])
for fnname,fn,h in (('calc_surface_energy',sf.calc_surface_energy,'surface_energy'),('get_time_shift_motions',sf.get_time_shift_motions,'time_shift_motions'),('calc_cum_abs_surface_energy',sf.calc_cum_abs_surface_energy,'cum_abs_surface_energy')):
  for v in vals_pool:
    for tts in tts_pool:
      m=len(tts)
      for lu in range(0,m+3):
        for ld in range(0,m+3):
          for (trim,start) in ((False,False),(True,False),(True,True),(False,True)):
            if rng.random()<0.5 and not (lu in (1,m) and ld in (1,m)): continue
            nodal=rng.random()<0.5
            u=[pick() for _ in range(lu)]; d=[pick() for _ in range(ld)]
            stt=rng.choice([0.0,0.5,0.25])
            asig=eqsig.AccSignal(np.array(v),0.5)
            r=call(fn,asig,np.array(tts),nodal=nodal,up_red=np.array(u,dtype=float),down_red=np.array(d,dtype=float),stt=stt,trim=trim,start=start)
            reqs.append(f"{h}|{w_rats(v)}|{w_rat(0.5)}|{w_rats(tts)}|{w_bool(nodal)}|R|{w_rats(u)}|{w_rats(d)}|{w_rat(stt)}|{w_bool(trim)}|{w_bool(start)}")
            exp.append((fnname,v,tts,u,d,trim,start,r))
res=run_driver(reqs)
bad=0; kinds={}
for (fnname,v,tts,u,d,trim,start,r),m in zip(exp,res):
    key=(len(tts),len(u),len(d))
    if r[0]=='err':
        ok=(m[0]=='err' and m[1]==r[1]); kinds[(key,r[1])]=kinds.get((key,r[1]),0)+1
    else:
        a=np.asarray(r[1])
        if m[0]!='ok': ok=False
        else:
            outs=m[1]
            if outs[0][0]=='1d':
                ok = a.ndim==1 and [fr(x) for x in a]==[F(t) for t in outs[1]]
            else:
                rows=outs[1:]
                ok = a.ndim==2 and a.shape[0]==int(outs[0][1]) and all([fr(x) for x in a[i]]==[F(t) for t in rows[i]] for i in range(a.shape[0]))
        kinds[(key,'ok')]=kinds.get((key,'ok'),0)+1
    if not ok:
        bad+=1
        if bad<10: print("DISAGREE",fnname,v,tts,u,d,trim,start,r if r[0]=='err' else np.asarray(r[1]).shape,m[:1], m[1][0] if m[0]=='ok' else m[1])
print("cases",len(reqs),"disagreements",bad)
agg={}
for (key,k),c in sorted(kinds.items()): agg.setdefault(key,[]).append((k,c))
for key in sorted(agg): print(key,agg[key])
