import sys, random
import os; sys.path.insert(0, os.environ.get('VERIF', '/verif') + '/harness')  # val_c09 needs a driver built with Handlers/LwSmall
import numpy as np
from fractions import Fraction as F
from core import run_driver, w_rats, w_rat, fr
rng=random.Random(5)
def dy(x):
    q=F(x); k=q.denominator.bit_length()-1; assert q.denominator==2**k; return f'{q.numerator} {k}'
# --- 1. fl64 vs CPython's correctly rounded int/int division and float(Fraction)
xs=[]
for _ in range(3000):
    k=rng.choice([1,3,20,60,200])
    p=rng.randint(1,2**k); q=rng.randint(1,2**rng.choice([1,3,20,60,200]))
    xs.append(F(p,q)*rng.choice([1,-1]))
# ties and near ties
for _ in range(500):
    m=rng.randint(2**52,2**53-1); e=rng.randint(-60,30)
    xs.append((F(2*m+1,2))*F(2)**e)            # exact tie
    xs.append((F(2*m+1,2)+F(1,10**30))*F(2)**e)
    xs.append((F(2*m+1,2)-F(1,10**30))*F(2)**e)
    xs.append(F(m)*F(2)**e)                     # representable
xs += [F(0),F(1),F(1,3),F(2**53-1),F(2**53),F(2**53+1),F(2**54+2)]
xs=[abs(x) for x in xs]
res=run_driver([f"fl64|{x.numerator}|{x.denominator}" for x in xs])
got=[F(r[1][0][0]) for r in res]
bad=sum(1 for x,g in zip(xs,got) if F(x.numerator/x.denominator)!=g)
print("fl64 cases",len(xs),"disagreements",bad)
# --- 2. window decisions vs NumPy
reqs=[];exp=[]
ppss=list(range(1,130))+[160,161,187,196,200,249,250,253,256,322,400,500,512,1000]+[rng.randint(130,1200) for _ in range(40)]
for pps in ppss:
    dt=1/pps
    for i in [0,1,2,3,7,16,33,100,1234][:(9 if pps<300 else 5)]:
        p=int(1/dt); start=i*p
        it=np.arange(start*dt,(start*dt)+1,dt)
        sel=np.where((start*dt<=it)*(it<=(start+p)*dt))[0]
        reqs.append(f"cavdp_window_f|{dy(dt)}|{start}"); exp.append((pps,i,p,len(it),list(sel),[fr(t) for t in it]))
# non-reciprocal dt values too
for dt in [0.03,0.007,0.3,0.15,0.011,0.0625,0.004,0.0025]:
    for i in [0,1,5,40]:
        p=int(1/dt); start=i*p
        it=np.arange(start*dt,(start*dt)+1,dt)
        sel=np.where((start*dt<=it)*(it<=(start+p)*dt))[0]
        reqs.append(f"cavdp_window_f|{dy(dt)}|{start}"); exp.append((dt,i,p,len(it),list(sel),[fr(t) for t in it]))
res=run_driver(reqs)
bad=0
for (pps,i,p,L,sel,it),m in zip(exp,res):
    o=m[1]
    ok = int(o[0][0])==p and int(o[1][0])==L and [int(t) for t in o[2]]==[int(s) for s in sel] and [F(t) for t in o[3]]==it
    if not ok:
        bad+=1
        if bad<5: print("DISAGREE",pps,i,p,L,sel[-3:],o[0],o[1],o[2][-3:])
print("window cases",len(reqs),"disagreements",bad)
