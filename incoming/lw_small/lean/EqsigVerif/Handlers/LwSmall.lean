import EqsigVerif.Prelude.Wire
import EqsigVerif.Model.Fns
import EqsigVerif.Spec.FnsDir
import EqsigVerif.Handlers.Fns
/-! driver handlers for the executable definitions added by `lw_small` (round 7) -/
namespace EqsigVerif.Handlers.LwSmall
open EqsigVerif EqsigVerif.Wire EqsigVerif.Model.Fns

/-- `step_dir_split|<values…>|<pow>|<dir>` → `ok|<k>`: `np.argmin(calc_step_fn_vals_error(values, pow, dir))` -/
def stepDirSplitH : Handler
  | [v, p, d] => do
    let v ← rats v; let p ← nat1 p; let d ← str1 d; let d ← EqsigVerif.Handlers.Fns.parseDir d
    pure (ofExcept (fun (k : Nat) => [[toString k]]) (EqsigVerif.Spec.FnsDir.dirSplit v p d))
  | _ => throw "step_dir_split: expected 3 args"

def handlers : List (String × Handler) :=
  [("step_dir_split", stepDirSplitH)]

end EqsigVerif.Handlers.LwSmall
